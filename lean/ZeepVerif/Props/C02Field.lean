/-
Members declared by name, for EVERY input: namespace and type of what `Field::try_from_node` returns on its `name=` branch.
-/
import ZeepVerif.Props.C09Ref

namespace ZeepVerif.Props.C02Field
open ZeepVerif ZeepVerif.Model ZeepVerif.Lemmas.Keeps Std.Do ZeepVerif.Props.C09Denote

set_option mvcgen.warning false

/-- what a member declared by name (no `ref=`) carries besides the flags of `C02All.FieldOf`: the target namespace current at that
    moment, and the type its `type=` attribute is mapped to under the prefix table of that moment (a `String` without `type=`) -/
def NamedFieldOf (node : XNode) (f : Field) : Prop :=
  ∃ d : Doc, f.tns = d.current ∧
    f.rustType = (match node.attr? "type" with
      | some t => asRustType d t
      | none => FType.string)

theorem field_named_spec (node : XNode) (ctx : Ctx) (fuel : Nat) :
    ⦃fun _ => ⌜True⌝⦄ fieldFromNode node ctx fuel
    ⦃post⟨fun f _ => ⌜(node.tag == "any") = false → node.attr? "ref" = none → NamedFieldOf node f⌝, fun _ _ => ⌜True⌝⟩⦄ := by
  cases fuel with
  | zero => mvcgen [fieldFromNode]
  | succ fuel =>
    have hfnd : ∀ c x ns k, ⦃fun _ => ⌜True⌝⦄ findNodeByXmlName c x ns k fuel ⦃post⟨fun _ _ => ⌜True⌝, fun _ _ => ⌜True⌝⟩⦄ := by
      intro c x ns k
      have := fnd_denotes c x ns k fuel
      mvcgen [this]
    mvcgen [fieldFromNode, switchToTargetNamespace, modifyDoc, getDoc, liftOpt, hfnd]
    all_goals (try intros)
    all_goals clear hfnd
    case vc1.succ.isFalse.h_1.isTrue => rename_i h h1 _; rw [h] at h1; cases h1
    case vc6.succ.isFalse.h_2.isTrue => rename_i h h1 _; rw [h] at h1; cases h1
    case vc5.succ.isFalse.h_1.isFalse.h_2.h_1 =>
      rename_i t _ _ _ _ _ _ _ _ _ _
      exact ⟨t.2, rfl, rfl⟩
    case vc10.succ.isFalse.h_2.isFalse.h_2.h_1 =>
      rename_i d _ _ _ _ _ _ _ _ _ _
      exact ⟨d, rfl, rfl⟩
    all_goals (rename_i hnone; simp_all)

/-- **C02/C09 for members declared by name, every input.** Whenever `Field::try_from_node` returns for a member without `ref=` (and not a
    wildcard): its namespace is the target namespace current at that moment, and its type is what `as_rust_type` makes of the `type=`
    attribute under the prefix table of that same moment (`String` when there is no `type=`). With `C02All.FieldOf` (flags and names) this
    is everything a named member carries. -/
theorem c02_named_member_all_inputs (node : XNode) (ctx : Ctx) (fuel : Nat) (d : Doc) (f : Field)
    (hany : (node.tag == "any") = false) (href : node.attr? "ref" = none)
    (h : (runNM (fieldFromNode node ctx fuel) d).1 = .ok f) : NamedFieldOf node f := by
  have := run_of_triple _ _ _ _ (field_named_spec node ctx fuel) d trivial
  revert this h
  rcases runNM (fieldFromNode node ctx fuel) d with ⟨res, d'⟩
  cases res with
  | ok a => intro h hh; cases h; exact hh hany href
  | error e => intro h; cases h

end ZeepVerif.Props.C02Field
