/-
C16 — one POST per call; 4xx/5xx and unparsable replies are errors, never values.
Theorems about the interpreter of the helper body that the translator extracts from helpers_content.rs
on every run (`Generated.Send.sendSteps`), for every environment.
-/
import ZeepVerif.Model.Http

namespace ZeepVerif.Props.C16
open ZeepVerif.Model.Http ZeepVerif.Generated

/-- the extracted body contains no step the interpreter does not know -/
theorem c16_all_steps_modelled : helperSteps.all (fun s => match s with | .unknown _ => false | _ => true) = true := by
  decide

/-- at most one request per call, and exactly one when the request passed its check and serialised -/
theorem c16_one_post (env : Env) :
    (call env).2.sends ≤ 1 ∧ ((call env).2.sends = 1 ↔ env.checkOk = true ∧ env.serOk = true) := by
  obtain ⟨ck, se, cr, tr, de⟩ := env
  simp only [call, helperSteps, Send.sendSteps, List.map_cons, List.map_nil, parseStep]
  rcases tr with _ | _ | ⟨s, _ | _⟩ <;> cases ck <;> cases se <;> cases cr <;> cases de <;> simp [run] <;> (try split) <;> simp_all [run]

/-- the request is a POST carrying the serialised envelope, with Basic credentials exactly when configured -/
theorem c16_request_shape (env : Env) (h : (call env).2.sends = 1) :
    (call env).2.postBuilt = true ∧ (call env).2.bodySet = true ∧ ((call env).2.authSet = env.creds) := by
  obtain ⟨ck, se, cr, tr, de⟩ := env
  simp only [call, helperSteps, Send.sendSteps, List.map_cons, List.map_nil, parseStep] at h ⊢
  rcases tr with _ | _ | ⟨s, _ | _⟩ <;> cases ck <;> cases se <;> cases cr <;> cases de <;> simp [run] at h ⊢ <;> (try split) <;> simp_all [run]

/-- a value is returned only for a completed exchange: a response whose status is not 4xx/5xx, whose body
    could be read and deserialises into the response envelope -/
theorem c16_value_only_for_success (env : Env) (h : (call env).1 = .value) :
    ∃ s, env.transport = .response s true ∧ ¬ (400 ≤ s ∧ s < 600) ∧ env.deOk = true ∧ env.checkOk = true ∧ env.serOk = true := by
  obtain ⟨ck, se, cr, tr, de⟩ := env
  simp only [call, helperSteps, Send.sendSteps, List.map_cons, List.map_nil, parseStep] at h
  rcases tr with _ | _ | ⟨s, _ | _⟩ <;> cases ck <;> cases se <;> cases cr <;> cases de <;> simp [run] at h ⊢
  all_goals (first | (split at h <;> simp_all [run]) | simp_all [run])

/-- every 4xx or 5xx status, every unreadable or unparsable body and every transport failure is an error -/
theorem c16_failures_are_errors (env : Env)
    (h : env.transport = .refused ∨ env.transport = .closed ∨ (∃ s b, env.transport = .response s b ∧ 400 ≤ s ∧ s < 600) ∨
         (∃ s, env.transport = .response s false) ∨ env.deOk = false) :
    (call env).1 ≠ .value := by
  intro hv
  obtain ⟨s, ht, hs, hd, _, _⟩ := c16_value_only_for_success env hv
  rcases h with h | h | ⟨s', b, h, h1, h2⟩ | ⟨s', h⟩ | h
  · simp [ht] at h
  · simp [ht] at h
  · rw [ht] at h; cases h; exact hs ⟨h1, h2⟩
  · rw [ht] at h; cases h
  · simp [hd] at h

/-- 2xx with a parsable envelope gives the value -/
theorem c16_success (cr : Bool) (s : Nat) (hs : 200 ≤ s ∧ s < 300) :
    (call ⟨true, true, cr, .response s true, true⟩).1 = .value := by
  simp only [call, helperSteps, Send.sendSteps, List.map_cons, List.map_nil, parseStep]
  cases cr <;> simp [run] <;> split <;> simp_all [run] <;> omega

/-! non-vacuity: concrete exchanges -/
example : (call ⟨true, true, true, .response 200 true, true⟩).1 = .value := by decide
example : (call ⟨true, true, false, .response 500 true, true⟩).1 = .errHttp := by decide
example : (call ⟨true, true, false, .response 200 true, false⟩).1 = .errYaserde := by decide
example : (call ⟨false, true, false, .response 200 true, true⟩).1 = .errRestriction ∧
    (call ⟨false, true, false, .response 200 true, true⟩).2.sends = 0 := by decide

end ZeepVerif.Props.C16
