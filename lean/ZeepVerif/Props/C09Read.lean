/-
C09 at the level of the reader refinement: which component an `extension base=` denotes in the closed form of
`Props/C08Read`.
-/
import ZeepVerif.Lemmas.ReadExt

namespace ZeepVerif.Props.C09Read
open ZeepVerif ZeepVerif.Model ZeepVerif.Lemmas.ReadExt

/-- the base whose fields a derived type starts with is a node read before that carries the local name of the
    QName, sits in the namespace the QName's prefix is bound to (the default namespace for an unprefixed name), and
    is a type — never a component of another namespace, never an element or attribute of that name -/
theorem c09_base_denotes (d : Doc) (anc : List XNode) (cc ext : XNode) (bn : RNode) (h : PlainExt d anc cc ext bn) :
    ∃ baseName, ext.attr? "base" = some baseName ∧ bn ∈ d.nodes ++ d.knownNodes ∧
      bn.rtype.xmlName = some (resolveType d baseName).1 ∧ bn.inNs = (resolveType d baseName).2 ∧
      Kind.type.matchesType bn.rtype = true := by
  obtain ⟨_, ⟨baseName, hb, hl⟩, _, _⟩ := h
  refine ⟨baseName, hb, ?_⟩
  unfold lookupRead at hl
  have hmem := List.mem_of_find?_eq_some hl
  have hp := List.find?_some hl
  simp only [Bool.and_eq_true, beq_iff_eq] at hp
  exact ⟨hmem, hp.1.1, hp.1.2, hp.2⟩

/-- and it is the *first* such node in reading order: no earlier node with that name, namespace and kind exists -/
theorem c09_base_first (d : Doc) (xn : String) (ns : Option Ns) (bn : RNode) (h : lookupRead d xn ns .type = some bn) :
    ∃ pre post, d.nodes ++ d.knownNodes = pre ++ bn :: post ∧
      ∀ m ∈ pre, ¬ (m.rtype.xmlName = some xn ∧ m.inNs = ns ∧ Kind.type.matchesType m.rtype = true) := by
  unfold lookupRead at h
  obtain ⟨pre, post, heq, hpre⟩ := List.find?_eq_some_iff_append.mp h |>.2
  refine ⟨pre, post, heq, ?_⟩
  intro m hm hc
  have := hpre m hm
  simp [hc.1, hc.2.1, hc.2.2] at this

end ZeepVerif.Props.C09Read
