/-
C08 as a refinement statement about the monadic reader model: what the reader returns for a complex type derived
by extension from a base that has been read before (declared earlier in the file or handed down by the importer).
-/
import ZeepVerif.Lemmas.ReadExt
import ZeepVerif.Lemmas.ReadDecideX

namespace ZeepVerif.Props.C08Read
open ZeepVerif ZeepVerif.Model ZeepVerif.Lemmas.ReadField ZeepVerif.Lemmas.ReadFile ZeepVerif.Lemmas.ReadComp
open ZeepVerif.Lemmas.ReadExt ZeepVerif.Lemmas.ReadDecideX

theorem foldl_append_if {α β : Type} (p : α → Bool) (f : α → List β) : (l : List α) → (init : List β) →
    l.foldl (fun s n => if p n then s ++ f n else s) init = init ++ (l.filter p).flatMap f
  | [], init => by simp
  | x :: rest, init => by
    rw [List.foldl_cons, foldl_append_if p f rest]
    cases hp : p x <;> simp [List.filter_cons, hp]

/-- **base members first, then own elements, then own attributes**: with one `sequence` in the extension (what
    XSD allows), the fields the reader computes for the derived type are exactly the fields of the base's struct
    description, in their order, followed by one field per member site of the extension, followed by one per
    attribute of the extension -/
theorem c08_fields_order (d : Doc) (anc : List XNode) (cc ext : XNode) (bn : RNode)
    (hone : (ext.elemKids.filter (fun n => n.tag == "sequence")).length = 1) :
    extFields d anc cc ext bn =
      baseFieldsOf bn ++ (memberSites ext (cc :: anc)).map (fun st => plainField d st.1 st.2) ++
        (ext.elemKids.filter (fun n => n.tag == "attribute")).map (fun a => plainField d a (ext :: cc :: anc)) := by
  unfold extFields
  have e1 := foldl_append_if (fun n : XNode => n.tag == "sequence")
    (fun _ => (memberSites ext (cc :: anc)).map (fun st => plainField d st.1 st.2)) ext.elemKids (baseFieldsOf bn)
  have e2 := fun init => foldl_append_if (fun n : XNode => n.tag == "attribute") (fun a => [plainField d a (ext :: cc :: anc)]) ext.elemKids init
  simp only at e1 e2 ⊢
  rw [e1, e2]
  obtain ⟨x, hl⟩ := List.length_eq_one_iff.mp hone
  have e3 : ∀ (l : List XNode), List.flatMap (fun a => [plainField d a (ext :: cc :: anc)]) l = l.map (fun a => plainField d a (ext :: cc :: anc)) := by
    intro l; induction l with
    | nil => rfl
    | cons y ys ih => simp [List.flatMap_cons, ih]
  rw [hl, e3]
  simp [List.flatMap_cons]

/-- the reader on a `complexType` node, derived or not: the fold of `complexStepX` (for a `complexContent` child:
    `extFields`, i.e. the statement above) — in any document state in which the base has been read -/
theorem c08_type_read (node : XNode) (ctx : Ctx) (fuel : Nat) (d : Doc) (name : String)
    (hname : node.attr? "name" = some name ∨
      (node.attr? "name" = none ∧ (ctx.ancestors.head?.bind fun x => x.attr? "name") = some name))
    (hc : d.collectNamespaces node.nss = d)
    (h : ∀ k ∈ node.elemKids, PlainChildX d (node :: ctx.ancestors) k) :
    runNM (complexFromNode node ctx (fuel + 4)) d =
      (.ok (node.elemKids.foldl (complexStepX d name (node :: ctx.ancestors))
          { xmlName := name, fields := [], tns := d.current, comment := parseComment node }), d) :=
  complexFromNode_X node ctx fuel d name hname hc h

/-- **a whole schema file with derivation**: complex types plain or derived from a type declared earlier in the
    file, simple types by restriction, typed and anonymous global elements — `read_xml` returns `nodesFrom`: one
    node per component, each read in the document that holds the earlier ones. Hypothesis: a Boolean evaluated on
    the real parse of every single-file input of the run (`zvdrv plainfile`). -/
theorem c08_file_read (xf : XFile) (h : coveredFileXB xf = true) :
    ∃ schema tns, xf.tops = some [schema] ∧ readXml [xf] xf.name =
      .ok { fileDoc schema tns with
            nodes := nodesFrom (fileDoc schema tns) [schema] schema.kids (fileDoc schema tns).nodes } :=
  readXml_of_coveredFileXB xf h

/-! non-vacuity: a base and a type derived from it -/
def demoFile : XFile :=
  let nss : List (Option String × String) := [(some "xs", "http://www.w3.org/2001/XMLSchema"), (some "tns", "urn:demo")]
  let el (n t : String) : XNode := .elem "element" [⟨"name", none, n⟩, ⟨"type", none, t⟩] nss none []
  { name := "demo.xsd", urls := [],
    tops := some [.elem "schema" [⟨"targetNamespace", none, "urn:demo"⟩] nss none [
      .elem "complexType" [⟨"name", none, "Base"⟩] nss none [.elem "sequence" [] nss none [el "id" "xs:int"],
        .elem "attribute" [⟨"name", none, "code"⟩, ⟨"type", none, "xs:string"⟩] nss none []],
      .other,
      .elem "complexType" [⟨"name", none, "Derived"⟩] nss none [
        .elem "complexContent" [] nss none [.elem "extension" [⟨"base", none, "tns:Base"⟩] nss none [
          .elem "sequence" [] nss none [el "note" "xs:string"],
          .elem "attribute" [⟨"name", none, "flag"⟩, ⟨"type", none, "xs:boolean"⟩] nss none []]]]]] }

example : coveredFileXB demoFile = true := by decide

end ZeepVerif.Props.C08Read
