/-
C03 — serialized values are schema-conformant, namespace-well-formed XML.
The struct-level facts the yaserde wire form rests on (yaserde itself is the runtime; see DESIGN.md
appendix A): every prefix a member is labelled with is declared on its struct; attributes carry no
prefix; a member is labelled with its XML name; members are written in declaration order.
-/
import ZeepVerif.Model.Emit

namespace ZeepVerif.Props.C03
open ZeepVerif ZeepVerif.Model

theorem usedNamespaces_mono (tns : Ns) (fs : List Field) (acc : List Ns) (x : Ns) (hx : x ∈ acc) :
    x ∈ (fs.filter (fun f => !f.isAttribute)).foldl
      (fun acc f => match f.tns with
        | some ns => if acc.any (fun u => u.abbreviation == ns.abbreviation) then acc else acc ++ [ns]
        | none => acc) acc := by
  induction fs generalizing acc with
  | nil => simpa using hx
  | cons f fs ih =>
    simp only [List.filter_cons]
    split
    · simp only [List.foldl_cons]
      apply ih
      cases f.tns with
      | none => exact hx
      | some ns => simp only; split <;> simp [hx]
    · exact ih acc hx

/-- every prefix used by an element member of a struct is declared on that struct: the namespaces map
    of the struct contains a binding with that abbreviation (the member's own namespace record, or one
    with the same abbreviation — and abbreviations determine the URI, C10) -/
theorem c03_prefixes_declared (tns : Ns) (fs : List Field) (f : Field) (hf : f ∈ fs) (ha : f.isAttribute = false)
    (ns : Ns) (hns : f.tns = some ns) :
    ∃ u ∈ usedNamespaces tns fs, u.abbreviation = ns.abbreviation := by
  unfold usedNamespaces
  generalize hacc : [tns] = acc
  clear hacc
  induction fs generalizing acc with
  | nil => cases hf
  | cons g gs ih =>
    simp only [List.filter_cons]
    rcases List.mem_cons.mp hf with rfl | hmem
    · simp only [ha, Bool.not_false, if_true, List.foldl_cons, hns]
      by_cases hany : acc.any (fun u => u.abbreviation == ns.abbreviation) = true
      · simp only [hany, if_true]
        obtain ⟨u, hu, he⟩ := List.any_eq_true.mp hany
        exact ⟨u, usedNamespaces_mono tns gs acc u hu, by simpa using he⟩
      · simp only [hany]
        exact ⟨ns, usedNamespaces_mono tns gs (acc ++ [ns]) ns (by simp), rfl⟩
    · split
      · simp only [List.foldl_cons]
        exact ih hmem _
      · exact ih hmem acc

/-- the struct's own prefix is declared on it too -/
theorem c03_own_prefix_declared (tns : Ns) (fs : List Field) : tns ∈ usedNamespaces tns fs := by
  unfold usedNamespaces
  exact usedNamespaces_mono tns fs [tns] tns (by simp)

/-- an attribute member is written without a prefix (unqualified), whatever namespace its schema has -/
theorem c03_attribute_unqualified (f : Field) (h : f.isAttribute = true) :
    (writeField f).head? = some ("    #[yaserde(rename = " ++ rustDebugStr f.xmlName ++ ", attribute = true" ++ ")]\n") := by
  simp [writeField, h]

/-- an element member is labelled with the prefix of the namespace that declared it and its XML name -/
theorem c03_element_label (f : Field) (ns : Ns) (h : f.isAttribute = false) (hns : f.tns = some ns) :
    (writeField f).head? = some ("    #[yaserde(prefix = " ++ rustDebugStr ns.abbreviation ++ ", rename = " ++ rustDebugStr f.xmlName ++ "" ++ ")]\n") := by
  simp [writeField, h, hns]

/-- members are written in declaration order (the order of the field list), each exactly once -/
theorem c03_declaration_order (p : CProps) :
    complexPrefix p = complexHead p ++ p.fields.flatMap writeField ++
      (["}\n"] ++ writeCheckHeader (xmlNameToRustName p.xmlName) none) := rfl

/-! non-vacuity: a struct of namespace `a` with an inherited member of namespace `b` declares both -/
example : (usedNamespaces ⟨"urn:a", "a", "mod_a"⟩
    [⟨"x", "x", .string, false, false, some ⟨"urn:b", "b", "mod_b"⟩, false, false, false⟩]).map (·.abbreviation) = ["a", "b"] := by
  decide

end ZeepVerif.Props.C03
