/-
C08 and C09 joined, for EVERY input: the base whose members a derived type starts with is the component the `base` attribute's QName
denotes (C09Denote), and the rest of the member list is as in C08All.
-/
import ZeepVerif.Props.C08All
import ZeepVerif.Props.C09Denote

namespace ZeepVerif.Props.C08Denote
open ZeepVerif ZeepVerif.Model ZeepVerif.Lemmas.Keeps Std.Do ZeepVerif.Props.C02All ZeepVerif.Props.C08All ZeepVerif.Props.C09Denote
  ZeepVerif.Props.DocAll ZeepVerif.Props.CpxAll

set_option mvcgen.warning false

/-- `Derived` with the base pinned down: it is what the QName in `base=` — split by the prefix table of the document state `d` at that
    moment — denotes as a type -/
def DerivedD (ctx : Ctx) (ext cc : XNode) (r : List Field) : Prop :=
  ∃ (d : Doc) (baseName : String) (bn : RNode) (blocks : List (List Field)) (attrs : List Field),
    ext.attr? "base" = some baseName ∧
    Denotes ctx (resolveType d baseName).1 (resolveType d baseName).2 .type bn ∧
    r = baseFieldsOf bn ++ blocks.flatten ++ attrs ∧
    blocks.length = (seqKids ext.elemKids).length ∧
    (∀ b ∈ blocks, Matches (memberSites ext (cc :: ctx.ancestors)) b) ∧
    MatchesA (ext :: cc :: ctx.ancestors) (attrKids ext.elemKids) attrs

/-- what a reference is answered with is of the kind asked for -/
theorem denotes_kind {ctx x ns k rn} (h : Denotes ctx x ns k rn) : k.matchesType rn.rtype = true := by
  rcases h with ⟨_, _, h3⟩ | ⟨d, n, anc, schema, nm, _, _, _, _, htag, _, _, _, hno⟩
  · exact h3
  · cases k with
    | any => simp [Kind.matchesType]
    | type =>
      simp only [Kind.matchesTag, Bool.or_eq_true, beq_iff_eq] at htag
      cases hr : rn.rtype with
      | complex p => simp [Kind.matchesType]
      | simple p => simp [Kind.matchesType]
      | element p => rw [hr] at hno; simp only [NodeOf] at hno; rcases htag with h | h <;> simp [hno.1] at h
      | ignore => rw [hr] at hno; simp only [NodeOf] at hno; rcases htag with h | h
                  · exact absurd h hno.1
                  · exact absurd h hno.2.2.1
    | element =>
      simp only [Kind.matchesTag, beq_iff_eq] at htag
      cases hr : rn.rtype with
      | element p => simp [Kind.matchesType]
      | complex p => rw [hr] at hno; simp only [NodeOf] at hno; rcases hno.1 with h | h <;> simp [htag] at h
      | simple p => rw [hr] at hno; simp only [NodeOf] at hno; simp [htag] at hno
      | ignore => rw [hr] at hno; simp only [NodeOf] at hno; exact absurd htag hno.2.2.2

theorem derivedD_derived {ctx ext cc r} (h : DerivedD ctx ext cc r) : Derived ext cc ctx.ancestors r := by
  obtain ⟨d, bname, bn, blocks, attrs, _, hden, hr, hl, hm, ha⟩ := h
  exact ⟨bn, blocks, attrs, denotes_kind hden, hr, hl, hm, ha⟩

theorem extension_spec_denotes (node : XNode) (ctx : Ctx) (fuel : Nat) :
    ⦃fun _ => ⌜True⌝⦄ importExtension node ctx fuel
    ⦃post⟨fun r _ => ⌜match node.kids.find? (fun n => n.isElem && n.tag == "extension") with
                       | none => r = []
                       | some ext => DerivedD ctx ext node r⌝, fun _ _ => ⌜True⌝⟩⦄ := by
  cases fuel with
  | zero => mvcgen [importExtension]
  | succ fuel =>
    have hfnd := fun c x ns k => fnd_denotes c x ns k fuel
    have hseq := fun n c acc => sequence_spec n c acc fuel
    have hfld := fun n c => field_spec n c fuel
    mvcgen [importExtension, getDoc, liftOpt, hfnd, hseq, hfld]
    case inv1 =>
      rename_i ext _ _ _ _ _ _ _ bn _ _ _
      exact post⟨fun (c, r) _ => ⌜∃ blocks : List (List Field), r = baseFieldsOf bn ++ blocks.flatten ∧
        blocks.length = (seqKids c.prefix).length ∧ ∀ b ∈ blocks, Matches (memberSites ext (node :: ctx.ancestors)) b⌝, fun _ _ => ⌜True⌝⟩
    case inv2 =>
      rename_i ext _ _ _ _ _ _ _ bn _ _ _ _ _ _ _
      exact post⟨fun (c, r) _ => ⌜∃ (blocks : List (List Field)) (attrs : List Field), r = baseFieldsOf bn ++ blocks.flatten ++ attrs ∧
        blocks.length = (seqKids ext.elemKids).length ∧ (∀ b ∈ blocks, Matches (memberSites ext (node :: ctx.ancestors)) b) ∧
        MatchesA (ext :: node :: ctx.ancestors) (attrKids c.prefix) attrs⌝, fun _ _ => ⌜True⌝⟩
    all_goals (try simp only [SPred.down_pure] at *)
    all_goals (try intros)
    all_goals (first | trivial | skip)
    case vc2.step.isTrue.success =>
      rename_i hc _ hinv r _ hs
      obtain ⟨blocks, hb, hl, hm⟩ := hinv
      obtain ⟨fs, hr, hfs⟩ := hs
      refine ⟨blocks ++ [fs], ?_, ?_, ?_⟩
      · simp [hr, hb, List.flatten_append]
      · simp [seqKids, List.filter_append, hc, hl] at *
      · intro b hb'
        rcases List.mem_append.mp hb' with h | h
        · exact hm b h
        · simp at h; subst h; exact hfs
    case vc4.step.isFalse =>
      rename_i hc _ hinv
      obtain ⟨blocks, hb, hl, hm⟩ := hinv
      refine ⟨blocks, hb, ?_, hm⟩
      simp [seqKids, List.filter_append, hc, hl] at *
    case vc5.succ.h_2.h_1.success.h_1.pre =>
      exact ⟨[], by simp [baseFieldsOf]; rfl, by simp [seqKids], by simp⟩
    case vc1.succ.h_1 => rename_i hx _; rw [hx]; trivial
    case vc6.step.isTrue.success =>
      rename_i hc _ hinv r flds _ hf
      obtain ⟨blocks, attrs, hb, hl, hm, ha⟩ := hinv
      refine ⟨blocks, attrs ++ [r], ?_, hl, hm, ?_⟩
      · show _ ++ [r] = _
        rw [hb]; simp
      · rw [attrKids_snoc_t _ _ hc]
        exact matchesA_append _ _ _ _ _ ha hf
    case vc8.step.isFalse =>
      rename_i hc _ hinv
      obtain ⟨blocks, attrs, hb, hl, hm, ha⟩ := hinv
      refine ⟨blocks, attrs, hb, hl, hm, ?_⟩
      rw [attrKids_snoc_f _ _ hc]; exact ha
    case vc9.succ.h_2.h_1.success.h_1.post.success.pre =>
      rename_i hinv
      obtain ⟨blocks, hb, hl, hm⟩ := hinv
      exact ⟨blocks, [], by simp [hb], by simpa using hl, hm, by simp [attrKids, MatchesA]⟩
    case vc10.succ.h_2.h_1.success.h_1.post.success.post.success =>
      rename_i hx d0 bname hbase _ _ hk bn hbn _ _ _ _ _ _ _ _ hinv
      rw [hx]
      obtain ⟨blocks, attrs, hb, hl, hm, ha⟩ := hinv
      exact ⟨d0, bname, bn, blocks, attrs, hbase, hk bn hbn, hb, hl, hm, by simpa using ha⟩

/-- **C08 with C09, every input.** Whenever `import_extension_fields` returns for a `complexContent` with an `extension`, its result
    starts with the members of the component that the extension's `base` QName denotes as a type (`Denotes`: a type of that name and
    namespace read before, or the reading of the first global type definition of that name in a schema of that namespace) — whether
    that type is declared before or after the derived one, in this file or another — followed by the extension's own elements and
    attributes as in `C08All`. -/
theorem c08_base_is_the_denoted_type (node : XNode) (ctx : Ctx) (fuel : Nat) (d : Doc) (r : List Field) (ext : XNode)
    (hext : node.kids.find? (fun n => n.isElem && n.tag == "extension") = some ext)
    (h : (runNM (importExtension node ctx fuel) d).1 = .ok r) : DerivedD ctx ext node r := by
  have := run_of_triple _ _ _ _ (extension_spec_denotes node ctx fuel) d trivial
  revert this h
  rcases runNM (importExtension node ctx fuel) d with ⟨res, d'⟩
  cases res with
  | ok a => intro h hh; cases h; simpa [hext] using hh
  | error e => intro h; cases h

end ZeepVerif.Props.C08Denote
