/-
C09 for EVERY input, content level: what `find_node_by_xml_name` answers a reference with is a component of that name, namespace and kind
read before, or the reading of the first global component the XML tree declares under that name in a schema of that namespace
(result specification over DocAll.tfn_spec).
-/
import ZeepVerif.Props.DocAll
import ZeepVerif.Props.C09All

namespace ZeepVerif.Props.C09Denote
open ZeepVerif ZeepVerif.Model ZeepVerif.Lemmas.Keeps Std.Do ZeepVerif.Props.DocAll ZeepVerif.Props.CpxAll

set_option mvcgen.warning false

/-- what a reference `(x, ns, kind)` may be answered with: a component read before — called `x`, in exactly the wanted namespace, of
    the wanted kind — or the reading of the first global component of the XML tree that a `schema` of the wanted namespace declares
    under that name with a tag of the wanted kind -/
def Denotes (ctx : Ctx) (x : String) (ns : Option Ns) (k : Kind) (rn : RNode) : Prop :=
  (rn.rtype.xmlName = some x ∧ rn.inNs = ns ∧ k.matchesType rn.rtype = true) ∨
  (∃ (d : Doc) (n : XNode) (anc : List XNode) (schema : XNode) (nm : String),
      findGlobalComponent ctx d x ns k = some (n, anc) ∧ (n, anc) ∈ ctx.allElems ∧
      anc.head? = some schema ∧ schema.tag = "schema" ∧ k.matchesTag n.tag = true ∧
      (∀ w t, ns = some w → schema.attr? "targetNamespace" = some t → w.uri = t) ∧
      n.attr? "name" = some nm ∧ (resolveType d nm).1 = x ∧
      NodeOf n anc rn.rtype)

theorem findGlobalComponent_some {ctx d x ns k n anc} (h : findGlobalComponent ctx d x ns k = some (n, anc)) :
    (n, anc) ∈ ctx.allElems ∧ ∃ schema nm, anc.head? = some schema ∧ schema.tag = "schema" ∧ k.matchesTag n.tag = true ∧
      (∀ w t, ns = some w → schema.attr? "targetNamespace" = some t → w.uri = t) ∧
      n.attr? "name" = some nm ∧ (resolveType d nm).1 = x := by
  unfold findGlobalComponent at h
  have hm := List.mem_of_find?_eq_some h
  have hp := List.find?_some h
  refine ⟨hm, ?_⟩
  simp only at hp
  cases hh : anc.head? with
  | none => simp [hh] at hp
  | some schema =>
    simp only [hh, Bool.and_eq_true, beq_iff_eq] at hp
    obtain ⟨⟨⟨hs, hk⟩, hns⟩, hname⟩ := hp
    cases hn : n.attr? "name" with
    | none => simp [hn] at hname
    | some nm =>
      simp only [hn, beq_iff_eq] at hname
      refine ⟨schema, nm, rfl, hs, hk, ?_, rfl, hname⟩
      intro w t hw ht
      subst hw
      simp only [ht, beq_iff_eq] at hns
      exact hns

theorem fnd_denotes (ctx : Ctx) (x : String) (ns : Option Ns) (k : Kind) (fuel : Nat) :
    ⦃fun _ => ⌜True⌝⦄ findNodeByXmlName ctx x ns k fuel
    ⦃post⟨fun r _ => ⌜∀ rn, r = some rn → Denotes ctx x ns k rn⌝, fun _ _ => ⌜True⌝⟩⦄ := by
  cases fuel with
  | zero => mvcgen [findNodeByXmlName]
  | succ fuel =>
    have hok : ∀ n c, ⦃fun _ => ⌜True⌝⦄ okOrNone (tryFromNode n c fuel)
        ⦃post⟨fun r _ => ⌜∀ rn, r = some rn → NodeOf n c.ancestors rn.rtype⌝, fun _ _ => ⌜True⌝⟩⦄ := by
      intro n c
      have h := tfn_spec n c fuel
      mvcgen [okOrNone, h]
      all_goals simp_all
    mvcgen [findNodeByXmlName, modifyDoc, getDoc, hok]
    all_goals (try intros)
    case vc1.succ.h_1 =>
      rename_i _ nn hs rn hrn
      cases hrn
      unfold lookupRead at hs
      have := List.find?_some hs
      simp only [Bool.and_eq_true, beq_iff_eq] at this
      exact Or.inl ⟨this.1.1, this.1.2, this.2⟩
    case vc2.succ.h_2.h_1 => rename_i h; cases h
    case vc3.succ.h_2.h_2.isTrue => rename_i h; cases h
    case vc4.succ.h_2.h_2.isFalse.success =>
      rename_i d _ n anc hfind _ _ _ r _ hk _ rn hrn
      obtain ⟨hm, schema, nm, h1, h2, h3, h4, h5, h6⟩ := findGlobalComponent_some hfind
      exact Or.inr ⟨d, n, anc, schema, nm, hfind, hm, h1, h2, h3, h4, h5, h6, hk rn hrn⟩

/-- **C09, every input.** Whatever `find_node_by_xml_name` answers a reference `(x, ns, kind)` with — any tree, any document state, any
    fuel — is a component called `x` read before in exactly the namespace `ns` and of the wanted kind, or the reading (`NodeOf`) of the
    first global component in document order whose `name` is `x`, whose tag is of the wanted kind and whose `schema` has the wanted target
    namespace. Never a local element, a message part, or a component of another namespace that happens to carry the name. -/
theorem c09_reference_denotes_all_inputs (ctx : Ctx) (x : String) (ns : Option Ns) (k : Kind) (fuel : Nat) (d : Doc) (rn : RNode)
    (h : (runNM (findNodeByXmlName ctx x ns k fuel) d).1 = .ok (some rn)) : Denotes ctx x ns k rn := by
  have := run_of_triple _ _ _ _ (fnd_denotes ctx x ns k fuel) d trivial
  revert this h
  rcases runNM (findNodeByXmlName ctx x ns k fuel) d with ⟨res, d'⟩
  cases res with
  | ok a => intro h hh; cases h; exact hh rn rfl
  | error e => intro h; cases h

/-- in the second case the struct description carries the component's own name: a complex type found for `x` is called by the `name`
    attribute whose local part is `x` -/
theorem c09_forward_component_name (ctx : Ctx) (x : String) (ns : Option Ns) (k : Kind) (rn : RNode) (p : CProps)
    (h : Denotes ctx x ns k rn) (hp : rn.rtype = .complex p) :
    p.xmlName = x ∨ ∃ d nm, (resolveType d nm).1 = x ∧ p.xmlName = nm := by
  rcases h with ⟨h1, _, _⟩ | ⟨d, n, anc, schema, nm, _, _, _, _, _, _, hn, hx, hno⟩
  · left; rw [hp] at h1; simpa [RType.xmlName] using h1
  · right
    rw [hp] at hno
    have := hno.2.1
    simp only [nameOf, hn] at this
    exact ⟨d, nm, hx, by simpa using this.symm⟩

/-! non-vacuity: in the document read from the demonstration file of `C08Read`, the reference (`Base`, the file's namespace, type) is
    answered, and with the component of that name -/
def demoAnswer : Option (Option String) :=
  match readXml [C08Read.demoFile] "demo.xsd" with
  | .ok d => (match (runNM (findNodeByXmlName ⟨[], []⟩ "Base" d.current .type 10) d).1 with
      | .ok (some rn) => some rn.rtype.xmlName
      | _ => none)
  | .error _ => none

example : demoAnswer = some (some "Base") := by decide +kernel

end ZeepVerif.Props.C09Denote
