/-
C14 — schema-supplied text reaches the output only as data, never as code.
Lexical theorems over `RustLex` (identifiers, keywords of edition 2024) and the keyword table the
translator regenerates from field.rs.
-/
import ZeepVerif.RustLex
import ZeepVerif.Generated.Tables
import ZeepVerif.Model.Emit

namespace ZeepVerif.Props.C14
open ZeepVerif ZeepVerif.RustLex ZeepVerif.Generated ZeepVerif.Model

/-- every strict and reserved keyword of edition 2024 that a snake_case name can be is in the table
    (`Self` is the only keyword that is not lower case; type names handle it) -/
theorem c14_keywords_covered :
    keywords.all (fun k => k == "Self" || (Tables.keywordTable.any (fun kv => kv.1 == k))) = true := by decide

/-- every identifier the table produces is a legal identifier token: a raw identifier where that is
    allowed, a suffixed plain one for crate/self/super -/
theorem c14_keyword_values_legal : Tables.keywordTable.all (fun kv => isIdent kv.2) = true := by
  simp [Tables.keywordTable, isIdent, isIdentChars, isIdentOrKeywordChars, isIdentStart, isIdentCont,
    Inflector.isLowerA, Inflector.isUpperA, Inflector.isDigitA, notRawable, keywords, strictKeywords, reservedKeywords]

/-- the table only renames keywords: a name that is not a keyword is left alone, and every key is one -/
theorem c14_table_only_keywords :
    Tables.keywordTable.all (fun kv => keywords.contains kv.1) = true ∧ Tables.keywordDefault = "identity" := by decide

/-- no produced identifier is itself a keyword or one of the forms that cannot be raw -/
theorem c14_never_unrawable :
    Tables.keywordTable.all (fun kv => kv.2 != "r#crate" && kv.2 != "r#self" && kv.2 != "r#super" && kv.2 != "r#Self"
      && !(keywords.contains kv.2)) = true := by decide

/-- the PascalCase type-name function never yields `Self` -/
theorem c14_type_name_not_self (n : String) : xmlNameToRustName n ≠ "Self" := by
  unfold xmlNameToRustName
  simp only
  cases h : (Inflector.toPascalCase n).toList with
  | nil => simp
  | cons c cs =>
    simp only
    by_cases hd : Inflector.isDigitA c = true
    · simp only [hd, if_true]
      intro he
      have := congrArg String.toList he
      simp [h] at this
    · by_cases hs : (Inflector.toPascalCase n == "Self") = true
      · simp [hd, hs]
      · simp only [hd, hs]
        simpa using hs

/-- a numeric facet is emitted as a number that was parsed from the schema text — never as the text:
    the emitted chunk is built from `toString` of an `Int` -/
theorem c14_numeric_facet_is_number (ty name : String) (v : String) :
    writeNumericFacet ty name (some v) = [] ∨
    ∃ n : Int, writeNumericFacet ty name (some v) = ["   " ++ name ++ ": Some(" ++ toString n ++ "), \n"] := by
  unfold writeNumericFacet
  simp only
  split
  · right; exact ⟨_, rfl⟩
  · left; rfl

/-! non-vacuity -/
example : renameKeywords "type" = "r#type" ∧ renameKeywords "self" = "self_" ∧ renameKeywords "name" = "name" := by decide

end ZeepVerif.Props.C14
