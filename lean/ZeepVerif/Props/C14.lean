/-
C14 — schema-supplied text reaches the output only as data, never as code.
Lexical theorems over `RustLex` (identifiers, keywords of edition 2024) and the keyword table the
translator regenerates from field.rs.
-/
import ZeepVerif.RustLex
import ZeepVerif.Generated.Tables
import ZeepVerif.Model.Emit
import ZeepVerif.Lemmas.Literal
import ZeepVerif.Lemmas.Ident

namespace ZeepVerif.Props.C14
open ZeepVerif ZeepVerif.RustLex ZeepVerif.Generated ZeepVerif.Model

/-- every strict and reserved keyword of edition 2024 that a snake_case name can be is in the table
    (`Self` is the only keyword that is not lower case; type names handle it) -/
theorem c14_keywords_covered :
    keywords.all (fun k => k == "Self" || (Tables.keywordTable.any (fun kv => kv.1 == k))) = true := by decide

/-- every identifier the table produces is a legal identifier token: a raw identifier where that is
    allowed, a suffixed plain one for crate/self/super -/
theorem c14_keyword_values_legal : Tables.keywordTable.all (fun kv => isIdent kv.2) = true := by
  simp [Tables.keywordTable, isIdent, isIdentChars, isIdentOrKeywordChars, isIdentStart, isIdentCont,
    Inflector.isLowerA, Inflector.isUpperA, Inflector.isDigitA, notRawable, keywords, strictKeywords, reservedKeywords]

/-- the table only renames keywords: a name that is not a keyword is left alone, and every key is one -/
theorem c14_table_only_keywords :
    Tables.keywordTable.all (fun kv => keywords.contains kv.1) = true ∧ Tables.keywordDefault = "identity" := by decide

/-- no produced identifier is itself a keyword or one of the forms that cannot be raw -/
theorem c14_never_unrawable :
    Tables.keywordTable.all (fun kv => kv.2 != "r#crate" && kv.2 != "r#self" && kv.2 != "r#super" && kv.2 != "r#Self"
      && !(keywords.contains kv.2)) = true := by decide

/-- the PascalCase type-name function never yields `Self` -/
theorem c14_type_name_not_self (n : String) : xmlNameToRustName n ≠ "Self" := by
  unfold xmlNameToRustName
  simp only
  cases h : (Inflector.toPascalCase n).toList with
  | nil => simp
  | cons c cs =>
    simp only
    by_cases hd : Inflector.isDigitA c = true
    · simp only [hd, if_true]
      intro he
      have := congrArg String.toList he
      simp [h] at this
    · by_cases hs : (Inflector.toPascalCase n == "Self") = true
      · simp [hd, hs]
      · simp only [hd, hs]
        simpa using hs

/-- a numeric facet is emitted as a number that was parsed from the schema text — never as the text:
    the emitted chunk is built from `toString` of an `Int` -/
theorem c14_numeric_facet_is_number (ty name : String) (v : String) :
    writeNumericFacet ty name (some v) = [] ∨
    ∃ n : Int, writeNumericFacet ty name (some v) = ["   " ++ name ++ ": Some(" ++ toString n ++ "), \n"] := by
  unfold writeNumericFacet
  simp only
  split
  · right; exact ⟨_, rfl⟩
  · left; rfl

/-! ### literals and comments: the three forms in which schema text is written out -/

open ZeepVerif.Lemmas.Literal in
/-- **any text rendered with `{:?}` is one string literal evaluating to that text**, whatever follows it
    in the output: the literal ends at its own closing quote and nowhere earlier -/
theorem c14_literal (s : String) (rest : List Char) :
    lexStrLit ((rustDebugStr s).toList ++ rest) = some (s.toList, rest) := by
  simp only [rustDebugStr, String.toList_ofList]
  exact lex_debug_literal s.toList rest

open ZeepVerif.Lemmas.Literal in
/-- **every line written for a documentation text is one line comment** that ends at the newline the
    writer puts after it — no documentation text can end the comment early or contain a bare CR -/
theorem c14_doc_line (c l : String) (hl : l ∈ docLines c) (rest : List Char) :
    lexLineComment (("/// " ++ l ++ "\n").toList ++ rest) = some ('/' :: ' ' :: l.toList, '\n' :: rest) := by
  simp only [docLines, List.mem_map] at hl
  obtain ⟨cs, hcs, rfl⟩ := hl
  have h := docLines_no_terminator c.toList cs hcs
  have := lex_doc_line cs rest h.1 h.2
  simpa [String.toList_append] using this

/-- the chunks written for a documentation text are exactly those lines -/
theorem c14_comment_chunks (c : String) :
    writeCommentLines (some c) = (docLines c).map (fun l => "/// " ++ l ++ "\n") := rfl

open ZeepVerif.Lemmas.Literal in
/-- **the comment that carries an operation name is one block comment for every name**: neither `*/` nor
    a nested `/*` survives in it, so it is closed by the writer's own ` */` -/
theorem c14_operation_comment (op : String) (rest : List Char) :
    lexBlockComment (("/* " ++ String.ofList (Text.commentText op.toList) ++ " */").toList ++ rest) = some rest := by
  have := lex_operation_comment op.toList rest
  simpa [String.toList_append] using this

/-- enumeration values are written as `{:?}` literals, one per line, and in no other form -/
theorem c14_enumeration_chunks (r : Restr) (e : List String) (h : r.enumeration = some e) :
    ∃ pre post, writeRestrictions r =
      pre ++ (["   enumeration: Some(vec![\n"] ++ e.map (fun v => "      " ++ rustDebugStr v ++ ".to_string(),\n") ++ ["   ]),\n"]) ++ post := by
  unfold writeRestrictions
  rw [h]
  refine ⟨["Rc::new(restrictions::Restrictions {\n"] ++ writeNumericFacet "i32" "min_inclusive" r.minInclusive
      ++ writeNumericFacet "i32" "max_inclusive" r.maxInclusive ++ writeNumericFacet "i32" "min_exclusive" r.minExclusive
      ++ writeNumericFacet "i32" "max_exclusive" r.maxExclusive ++ writeNumericFacet "usize" "length" r.length
      ++ writeNumericFacet "usize" "min_length" r.minLength ++ writeNumericFacet "usize" "max_length" r.maxLength,
    ["   ..Default::default()\n", "})\n"], ?_⟩
  simp only [List.append_assoc]

/-- the endpoint address is written as a `{:?}` literal (tenth chunk of the service), never between bare quotes -/
theorem c14_location_chunk (s : Service) :
    (writeService s)[9]? = some ("            location: " ++ rustDebugStr s.location ++ ".to_string(),\n") := by
  simp [writeService]

/-- the soapAction value is written as a `{:?}` literal -/
theorem c14_action_chunk (operationName : String) (op : BindOp) (action : String) :
    (writeSoapAction operationName op action)[1]? = some ("    let url = " ++ rustDebugStr action ++ ";\n") := by
  simp [writeSoapAction]

/-! ### identifiers: every ASCII name becomes a legal identifier -/

section Identifiers
open ZeepVerif.Lemmas.Ident ZeepVerif.Inflector

theorem kw_heads : ∀ k ∈ keywords, ∃ c cs, k.toList = c :: cs ∧ (isLowerA c = true ∨ k = "Self") := by
  simp [keywords, strictKeywords, reservedKeywords, isLowerA]

theorem snakeOk_cont (c : Char) (h : snakeOk c = true) : isIdentCont c = true := by
  simp only [snakeOk, Bool.or_eq_true, beq_iff_eq] at h
  simp only [isIdentCont, isIdentStart, Bool.or_eq_true, beq_iff_eq]
  rcases h with (h | h) | h
  · exact Or.inl (Or.inl (Or.inl h))
  · exact Or.inr h
  · exact Or.inl (Or.inr h)

theorem iok_cons (c : Char) (cs : List Char) (h : c ≠ '_' ∨ cs ≠ []) :
    isIdentOrKeywordChars (c :: cs) = (isIdentStart c && cs.all isIdentCont) := by
  unfold isIdentOrKeywordChars
  split
  · next heq => cases heq
  · next heq =>
    simp only [List.cons.injEq] at heq
    rcases h with h | h
    · exact absurd heq.1 h
    · exact absurd heq.2 h
  · next c' cs' _ _ heq =>
    simp only [List.cons.injEq] at heq
    obtain ⟨rfl, rfl⟩ := heq
    rfl

theorem not_keyword_of_head (s : String) (c : Char) (cs : List Char) (hs : s.toList = c :: cs)
    (hl : isLowerA c = false) (hS : c ≠ 'S') : keywords.contains s = false := by
  rw [Bool.eq_false_iff]
  intro hc
  have hm : s ∈ keywords := by simpa using hc
  obtain ⟨c', cs', hk, h⟩ := kw_heads s hm
  rw [hs] at hk
  simp only [List.cons.injEq] at hk
  rcases h with h | h
  · rw [← hk.1, hl] at h; cases h
  · subst h
    simp at hs
    exact hS hs.1.symm

/-- **the field name made from any ASCII name is a legal identifier token** (a raw identifier for a
    keyword, a suffixed one where raw is not allowed, `_`-prefixed when it would start with a digit) -/
theorem c14_field_name_is_ident (n : String) (h : Ascii n.toList) : isIdent (asFieldName n) = true := by
  obtain ⟨hch, hhead⟩ := snake_chars n h
  unfold asFieldName
  simp only
  cases hs : (toSnakeCase n).toList with
  | nil => simp [isIdent, isIdentChars, isIdentOrKeywordChars, isIdentStart, isIdentCont, isLowerA, isUpperA, isDigitA, keywords, strictKeywords, reservedKeywords]
  | cons c cs =>
    rw [hs] at hch hhead
    have hcont : (c :: cs).all isIdentCont = true := by
      rw [List.all_eq_true]; intro x hx; exact snakeOk_cont x (hch x hx)
    simp only
    by_cases hd : isDigitA c = true
    · simp only [hd, if_true]
      have htl : ("_" ++ toSnakeCase n).toList = '_' :: c :: cs := by simp [String.toList_append, hs]
      have hnk := not_keyword_of_head ("_" ++ toSnakeCase n) '_' (c :: cs) htl (by decide) (by decide)
      unfold isIdent isIdentChars
      rw [htl]
      have : String.ofList ('_' :: c :: cs) = "_" ++ toSnakeCase n := by rw [← htl]; simp
      rw [this, hnk, iok_cons _ _ (Or.inr (by simp)), hcont]
      simp [isIdentStart]
    · have hd' : isDigitA c = false := by simpa using hd
      simp only [hd', Bool.false_eq_true, if_false]
      unfold renameKeywords
      cases hfind : Tables.keywordTable.find? (fun kv => kv.1 == toSnakeCase n) with
      | some kv =>
        simp only
        have hm := List.mem_of_find?_eq_some hfind
        have := c14_keyword_values_legal
        rw [List.all_eq_true] at this
        exact this kv hm
      | none =>
        simp only
        have hc_ne : c ≠ '_' := by
          intro e; apply hhead; simp [e]
        have hcl : isLowerA c = true := by
          have := hch c (by simp)
          simp only [snakeOk, Bool.or_eq_true, beq_iff_eq] at this
          rcases this with (h1 | h1) | h1
          · exact h1
          · rw [hd'] at h1; cases h1
          · exact absurd h1 hc_ne
        have hnk : keywords.contains (toSnakeCase n) = false := by
          rw [Bool.eq_false_iff]
          intro hc
          have hcov := c14_keywords_covered
          rw [List.all_eq_true] at hcov
          have := hcov (toSnakeCase n) (by simpa using hc)
          simp only [Bool.or_eq_true, beq_iff_eq, List.any_eq_true] at this
          rcases this with e | ⟨kv, hkv, hk⟩
          · rw [e] at hs
            simp at hs
            rw [← hs.1] at hcl
            revert hcl; decide
          · rw [List.find?_eq_none] at hfind
            exact hfind kv hkv (by simpa using hk)
        unfold isIdent isIdentChars
        rw [hs]
        split
        · next rest heq =>
          simp only [List.cons.injEq] at heq
          have : snakeOk '#' = true := hch '#' (by rw [heq.2]; simp)
          exact absurd this (by decide)
        · simp only [String.ofList_toList, ← hs, hnk]
          rw [hs, iok_cons _ _ (Or.inl hc_ne)]
          have : cs.all isIdentCont = true := by
            rw [List.all_eq_true] at hcont ⊢
            intro x hx; exact hcont x (by simp [hx])
          simp [isIdentStart, hcl, this]

theorem pascalOk_cont (c : Char) (h : pascalOk c = true) : isIdentCont c = true := by
  simp only [pascalOk, Bool.or_eq_true] at h
  simp only [isIdentCont, isIdentStart, Bool.or_eq_true, beq_iff_eq]
  rcases h with (h | h) | h
  · exact Or.inl (Or.inl (Or.inr h))
  · exact Or.inl (Or.inl (Or.inl h))
  · exact Or.inr h

theorem not_keyword_of_upper (s : String) (c : Char) (cs : List Char) (hs : s.toList = c :: cs)
    (hl : isLowerA c = false) (hne : s ≠ "Self") : keywords.contains s = false := by
  rw [Bool.eq_false_iff]
  intro hc
  have hm : s ∈ keywords := by simpa using hc
  obtain ⟨c', cs', hk, h⟩ := kw_heads s hm
  rw [hs] at hk
  simp only [List.cons.injEq] at hk
  rcases h with h | h
  · rw [← hk.1, hl] at h; cases h
  · exact hne h

/-- **the type name made from any ASCII name is a legal identifier token** -/
theorem c14_type_name_is_ident (n : String) (h : Ascii n.toList) : isIdent (xmlNameToRustName n) = true := by
  obtain ⟨hch, hhead⟩ := pascal_chars n h
  unfold xmlNameToRustName
  simp only
  cases hs : (toPascalCase n).toList with
  | nil => simp [isIdent, isIdentChars, isIdentOrKeywordChars, isIdentStart, isIdentCont, isLowerA, isUpperA, isDigitA, keywords, strictKeywords, reservedKeywords]
  | cons c cs =>
    rw [hs] at hch hhead
    have hcont : (c :: cs).all isIdentCont = true := by
      rw [List.all_eq_true]; intro x hx; exact pascalOk_cont x (hch x hx)
    have hfirst := hhead c (by simp)
    simp only
    by_cases hd : isDigitA c = true
    · simp only [hd, if_true]
      have htl : ("_" ++ toPascalCase n).toList = '_' :: c :: cs := by simp [String.toList_append, hs]
      have hnk := not_keyword_of_head ("_" ++ toPascalCase n) '_' (c :: cs) htl (by decide) (by decide)
      unfold isIdent isIdentChars
      rw [htl]
      have : String.ofList ('_' :: c :: cs) = "_" ++ toPascalCase n := by rw [← htl]; simp
      rw [this, hnk, iok_cons _ _ (Or.inr (by simp)), hcont]
      simp [isIdentStart]
    · have hd' : isDigitA c = false := by simpa using hd
      simp only [hd', Bool.false_eq_true, if_false]
      have hup : isUpperA c = true := by simpa [hd'] using hfirst
      by_cases hself : (toPascalCase n == "Self") = true
      · simp only [hself, if_true]
        simp [isIdent, isIdentChars, isIdentOrKeywordChars, isIdentStart, isIdentCont, isLowerA, isUpperA, isDigitA, keywords, strictKeywords, reservedKeywords]
      · simp only [hself, Bool.false_eq_true, if_false]
        have hne : toPascalCase n ≠ "Self" := by simpa using hself
        have hlow : isLowerA c = false := by
          have hc128 : isUpperA c = true := hup
          simp only [isUpperA, isLowerA, Bool.and_eq_true, decide_eq_true_eq] at hc128 ⊢
          rw [Bool.eq_false_iff]
          intro hl
          simp only [Bool.and_eq_true, decide_eq_true_eq] at hl
          have h1 := hc128.2
          have h2 := hl.1
          exact absurd (Char.le_trans h2 h1) (by decide)
        have hnk := not_keyword_of_upper (toPascalCase n) c cs hs hlow hne
        have hc_ne : c ≠ '_' := by
          intro e; rw [e] at hup; revert hup; decide
        unfold isIdent isIdentChars
        rw [hs]
        split
        · next rest heq =>
          simp only [List.cons.injEq] at heq
          rw [heq.1] at hup
          exact absurd hup (by decide)
        · simp only [String.ofList_toList, ← hs, hnk]
          rw [hs, iok_cons _ _ (Or.inl hc_ne)]
          have : cs.all isIdentCont = true := by
            rw [List.all_eq_true] at hcont ⊢
            intro x hx; exact hcont x (by simp [hx])
          simp [isIdentStart, hup, this]

end Identifiers

/-! non-vacuity -/
example : lexStrLit ((rustDebugStr "a\"; fn marker() {} //\\").toList ++ "; x".toList) = some ("a\"; fn marker() {} //\\".toList, "; x".toList) :=
  c14_literal _ _
example : (String.ofList (Text.commentText "a*/ fn marker() {} /*".toList)) = "a* / fn marker() {} / *" := by decide

example : renameKeywords "type" = "r#type" ∧ renameKeywords "self" = "self_" ∧ renameKeywords "name" = "name" := by decide

end ZeepVerif.Props.C14
