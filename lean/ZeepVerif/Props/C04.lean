/-
C04 — schema-valid instances deserialize losslessly and round-trip.
The generator-side facts losslessness rests on: a member that may repeat is a `Vec` (every occurrence
is kept), a member that may be absent is an `Option`, and the documented builtin table is wide enough
for the bounded XSD integer types. The run-time half (yaserde) is exercised by the round trips.
-/
import ZeepVerif.Model.Emit
import ZeepVerif.Spec.Grammar

namespace ZeepVerif.Props.C04
open ZeepVerif ZeepVerif.Model ZeepVerif.Generated

/-- a member whose own `maxOccurs` or whose enclosing particles allow repetition is a `Vec` -/
theorem c04_repeatable_is_vec (node : XNode) (anc : List XNode)
    (h : mayRepeat (node.attr? "maxOccurs") = true ∨ (enclosingParticles anc).any (fun n => mayRepeat (n.attr? "maxOccurs")) = true) :
    (occurrence node anc).isVec = true := by
  unfold occurrence
  simp only
  rcases h with h | h <;> simp [h]

/-- and only then: a member that cannot repeat is never a `Vec` -/
theorem c04_vec_only_when_repeatable (node : XNode) (anc : List XNode) (h : (occurrence node anc).isVec = true) :
    mayRepeat (node.attr? "maxOccurs") = true ∨ (enclosingParticles anc).any (fun n => mayRepeat (n.attr? "maxOccurs")) = true := by
  unfold occurrence at h
  simpa using h

/-- the three spellings of `maxOccurs` that matter -/
theorem c04_mayRepeat_cases : mayRepeat (some "unbounded") = true ∧ mayRepeat none = false := by
  simp [mayRepeat]

/-- value ranges of the bounded XSD integer types, and of the Rust types the table maps them to -/
def xsdRange : String → Option (Int × Int)
  | "byte" => some (-128, 127) | "short" => some (-32768, 32767) | "int" => some (-2147483648, 2147483647)
  | "long" => some (-9223372036854775808, 9223372036854775807)
  | "unsignedByte" => some (0, 255) | "unsignedShort" => some (0, 65535) | "unsignedInt" => some (0, 4294967295)
  | "unsignedLong" => some (0, 18446744073709551615)
  | _ => none

def carrierRange : String → Option (Int × Int)
  | "i8" => some (-128, 127) | "i16" => some (-32768, 32767) | "i32" => some (-2147483648, 2147483647)
  | "i64" => some (-9223372036854775808, 9223372036854775807)
  | "u8" => some (0, 255) | "u16" => some (0, 65535) | "u32" => some (0, 4294967295) | "u64" => some (0, 18446744073709551615)
  | _ => none

/-- width, partial: every *bounded* XSD integer type is mapped to a Rust type that holds its whole value
    space (the full statement, for all builtins, is false — see `c04_width_counterexample`) -/
theorem c04_width_partial :
    ["byte", "short", "int", "long", "unsignedByte", "unsignedShort", "unsignedInt", "unsignedLong"].all (fun b =>
      match xsdRange b, (Tables.builtinTable.find? (fun r => r.1 == b)).bind (fun r => carrierRange r.2) with
      | some (lo, hi), some (clo, chi) => decide (clo ≤ lo) && decide (hi ≤ chi)
      | _, _ => false) = true := by
  decide

/-- the recorded finding: `xs:integer` is unbounded but mapped to `i32`; 2^31 is a valid instance value
    that the carrier cannot hold -/
theorem c04_width_counterexample :
    (Tables.builtinTable.find? (fun r => r.1 == "integer")).map (·.2) = some "i32" ∧
    ¬ ((2147483648 : Int) ≤ 2147483647) := by
  decide

end ZeepVerif.Props.C04
