/-
C04 in the yaserde environment model `Ya`: deserialising what was serialised gives the value back, and
serialise-deserialise-serialise is a fixpoint — for every program of the core class (complex types with element
members of primitive or struct type in any wrapper, attributes of primitive type or of a simple-type wrapper type;
simple-type wrappers), every struct
and every well-typed value whose primitive texts are non-empty and in `Display` form. The excluded point (the
empty string) is a theorem too: it is lost.
-/
import ZeepVerif.Lemmas.YaRt
import ZeepVerif.Props.C03Ya

namespace ZeepVerif.Props.C04Ya
open ZeepVerif ZeepVerif.Ya ZeepVerif.Lemmas.YaWf ZeepVerif.Lemmas.YaRt

/-- **lossless**: what a reader makes of the serialised document deserialises to the value it came from -/
theorem c04_roundtrip_partial (P : Prog) (hP : core P = true) (n : String) (v : Val) (px : PX) (rx : RX)
    (hok : okVal P (.struct n) v = true) (hs : serRoot P n v = some px) (hr : resolve [] px = some rx) :
    deRoot P n rx = some v :=
  roundtrip P hP n v px rx hok hs hr

/-- **fixpoint**: serialising the deserialised value gives the same document again -/
theorem c04_fixpoint_partial (P : Prog) (hP : core P = true) (n : String) (v : Val) (px : PX) (rx : RX)
    (hok : okVal P (.struct n) v = true) (hs : serRoot P n v = some px) (hr : resolve [] px = some rx) :
    (deRoot P n rx).bind (serRoot P n) = some px :=
  fixpoint P hP n v px rx hok hs hr

/-- with `declared` the reader's view exists, so the two hypotheses about `px`/`rx` can be discharged -/
theorem c04_roundtrip_exists (P : Prog) (hP : core P = true) (hD : declared P = true) (n : String) (v : Val) (px : PX)
    (hok : okVal P (.struct n) v = true) (hs : serRoot P n v = some px) :
    ∃ rx, resolve [] px = some rx ∧ deRoot P n rx = some v := by
  have h := serRoot_resolves P hD n v px hs
  cases hr : resolve [] px with
  | none => simp [hr] at h
  | some rx => exact ⟨rx, rfl, roundtrip P hP n v px rx hok hs hr⟩

/-! the excluded point: `Some("")` in an optional string member comes back as `None` (xml-rs writes no
    character event for the empty string, and the deserialiser skips an element without character data) —
    the full statement "for every value" is false in the model, as it is for the real crates -/
def optP : Prog := [
  { name := "T", pfx := some "a", nss := [("a", "urn:a")], rename := "T",
    fields := [ { kind := .elem, pfx := some "a", rename := "note", wrap := .opt, leaf := .prim .string } ] } ]
def someEmpty : Val := .struct "T" (.cons (.cons (.prim "") .nil) .nil)
def noneVal : Val := .struct "T" (.cons .nil .nil)

theorem c04_empty_text_counterexample (rx : RX) (h : (serRoot optP "T" someEmpty).bind (resolve []) = some rx) :
    deRoot optP "T" rx = some noneVal := by
  simp [serRoot, optP, someEmpty, Prog.find, serVal, serFields, serItems, txt, Parts.merge, PXs.append, resolve, resolveList,
    nsLookup, attrsBound] at h
  subst h
  simp [deRoot, optP, Prog.find, rootNsOk, deVal, deKids, firstOwner, elemKey, StructD.fieldNs, nsLookup, RX.key, RX.ns, RX.lname,
    assemble, wrapItems, Vals.ofList, Vals.last?, noneVal]

/-! non-vacuity of the round trip: the demo program and value of `C03Ya` meet every hypothesis -/
example : ∃ rx, (serRoot C03Ya.demoP "m::Order" C03Ya.demoV).bind (resolve []) = some rx ∧
    deRoot C03Ya.demoP "m::Order" rx = some C03Ya.demoV := by
  have hs : (serRoot C03Ya.demoP "m::Order" C03Ya.demoV).isSome = true := by decide
  cases hpx : serRoot C03Ya.demoP "m::Order" C03Ya.demoV with
  | none => simp [hpx] at hs
  | some px =>
    obtain ⟨rx, hr, hd⟩ := c04_roundtrip_exists C03Ya.demoP (by decide) (by decide) "m::Order" C03Ya.demoV px (by decide) hpx
    exact ⟨rx, by simp [hr], hd⟩

end ZeepVerif.Props.C04Ya
