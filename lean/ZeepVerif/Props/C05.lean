/-
C05 — every WSDL operation gets correct SOAP envelopes and one client method.
Theorems about the model of the binding/service writers and of the body-part choice.
-/
import ZeepVerif.Model.Emit

namespace ZeepVerif.Props.C05
open ZeepVerif ZeepVerif.Model ZeepVerif.Inflector

/-- the service client has exactly one method per operation of its binding, in the binding's order,
    between the constructor and the closing brace — none missing, none twice -/
theorem c05_one_method_per_operation (s : Service) :
    ∃ head, writeService s = head ++ s.binding.ops.flatMap (fun (n, op) => writeAsyncSoapCall n op) ++ ["}\n"] ∧
      head.length = 13 := by
  refine ⟨_, rfl, ?_⟩
  simp

/-- each method is `async`, is named by the escaped snake_case operation name, takes the request envelope
    and returns the response envelope — or `()` exactly when the operation has no output -/
theorem c05_method_signature (opName : String) (op : BindOp) :
    (writeAsyncSoapCall opName op).head? = some
      ("pub async fn " ++ asFieldName opName ++ "(&self, req: " ++ xmlNameToRustName opName ++ "InputEnvelope) -> error::SoapResult<" ++
        (match op.output with
         | some _ => xmlNameToRustName opName ++ "OutputEnvelope"
         | none => "()") ++ "> {\n") := by
  cases h : op.output <;> simp [writeAsyncSoapCall, h, String.append_assoc]

/-- every method posts through the shared helper with the client's own address and credentials -/
theorem c05_method_posts_to_location (opName : String) (op : BindOp) :
    ∃ call, (writeAsyncSoapCall opName op)[2]? = some call ∧
      (call = "    helpers::send_soap_request_using_client(&self.client, &self.location, credentials, req).await\n" ∨
       call = "    helpers::send_soap_request_using_client::<_, helpers::NoResponse, _, _>(&self.client, &self.location, credentials, req).await.map(|_| ())\n") := by
  cases h : op.output <;> simp [writeAsyncSoapCall, h]

/-- the address the client is constructed with is the port's address (as `reqwest::Url` prints it),
    written as a string literal whose value is exactly that text (`Props.C14.c14_literal`) -/
theorem c05_location (s : Service) :
    (writeService s)[9]? = some ("            location: " ++ rustDebugStr s.location ++ ".to_string(),\n") := by
  simp [writeService]

/-- the body of a direction whose `soap:body` names no part is never a part the binding declares as a
    header: the chosen part's name is not among the header part names -/
theorem c05_body_not_a_header (parts : List (String × (RNode × Option Ns))) (headerParts : List String)
    (kv : String × (RNode × Option Ns))
    (h : parts.find? (fun kv => !headerParts.contains kv.1) = some kv) : kv.1 ∉ headerParts := by
  have := List.find?_some h
  simpa using this

/-- `BTreeMap` insertion as modelled: the inserted key is found afterwards, with the inserted value -/
theorem c05_bmInsert_get {V : Type} (k : String) (v : V) (m : List (String × V)) :
    bmGet (bmInsert k v m) k = some v := by
  induction m with
  | nil => simp [bmInsert, bmGet]
  | cons kv rest ih =>
    unfold bmInsert
    split
    · simp [bmGet]
    · split
      · simp [bmGet]
      · rename_i h1 h2
        have : (kv.1 == k) = false := by
          simp only [beq_eq_false_iff_ne, ne_eq]
          exact fun e => h2 e.symm
        simp only [bmGet, List.find?_cons, this] at ih ⊢
        exact ih

/-! non-vacuity -/
example : (writeAsyncSoapCall "getQuote" ⟨none, ⟨[], ⟨.ignore, none⟩⟩, none⟩).length = 4 := by
  simp [writeAsyncSoapCall]

end ZeepVerif.Props.C05
