/-
C03 on the wire, in the yaserde environment model `Ya` (lean/ZeepVerif/Ya/Model.lean; the model is compared with the
real crates on every run): what any value of any generated complex type serialises to.
-/
import ZeepVerif.Lemmas.YaWf
import ZeepVerif.Lemmas.YaRt
import ZeepVerif.Lemmas.YaOfDoc

namespace ZeepVerif.Props.C03Ya
open ZeepVerif ZeepVerif.Model ZeepVerif.Ya ZeepVerif.Lemmas.YaWf ZeepVerif.Lemmas.YaRt ZeepVerif.Lemmas.YaOfDoc

/-- **every prefix used in the document is declared in it**: for every program whose structs declare what
    their members use (`declared`, a decidable predicate evaluated on every real program of the run), every
    struct and every value, the serialised document resolves — each prefix of an element or attribute name is
    bound by an `xmlns:` declaration on that element or an ancestor -/
theorem c03_every_prefix_declared (P : Prog) (hP : declared P = true) (n : String) (v : Val) (px : PX)
    (h : serRoot P n v = some px) : (resolve [] px).isSome :=
  serRoot_resolves P hP n v px h

/-- the hypothesis holds for every struct the writer emits for a complex type, whatever the reader produced:
    its own prefix and the prefix of every element member are bound by its `namespaces`; attribute members
    are unqualified -/
theorem c03_complex_structs_declare (P : Prog) (m : Option String) (p : CProps)
    (hnone : p.tns = none → ∀ f ∈ p.fields, f.isAttribute = false → f.tns = none) :
    structOK P (structOfComplex m p) = true :=
  structOfComplex_ok P m p hnone

/-- and for the whole derive input of a document: every struct emitted for its complex types, anonymous-typed
    elements and simple types (`Ya.progOf`) declares what it uses — hence (`c03_every_prefix_declared`) every value
    of every such struct serialises to namespace-well-formed XML. `NodeOK`: a type of a schema without target
    namespace has no member of a namespace (outside the subset) -/
theorem c03_document_program_declared (d : Doc) (h : ∀ n ∈ d.nodes, NodeOK n) : declared (progOf d) = true :=
  progOf_declared d h

/-- the text the writer emits *is* the spelling of that derive input: member attribute line … -/
theorem c03_member_attribute_spelled (m : Option String) (f : Field) :
    (writeField f).head? = some (spellField (fieldOf m f)) :=
  field_spelling m f

/-- … and struct attribute line -/
theorem c03_struct_attribute_spelled (m : Option String) (xn : String) (fs : List Field) (t : Ns) (c : Option String) :
    spellStruct (structOfComplex m ⟨xn, fs, some t, c⟩) ∈ complexHead ⟨xn, fs, some t, c⟩ :=
  struct_spelling m xn fs t c

/-- **every element carries the local name and namespace of its declaration**: the element written for an item
    of member `f` of struct `sd` is read back, by any namespace-aware reader, with local name `f.rename` and the
    namespace the struct's `namespaces` give to `f`'s prefix — even though the item's own start tag may declare
    further prefixes (they agree, `consistent`, which is C10) -/
theorem c03_member_element_name (P : Prog) (hP : core P = true) (sd : StructD) (hsd : sd ∈ P) (f : FieldD)
    (hb : bound sd.nss f.pfx = true) (env0 : List (String × String)) (v : Val) (px : PX) (rx : RX)
    (hok : okVal P f.leaf v = true) (hs : serVal P (f.pfx, f.rename) f.leaf v = some px)
    (hr : resolve (sd.nss ++ env0) px = some rx) :
    rx.lname = f.rename ∧ rx.ns.getD "" = sd.fieldNs f := by
  obtain ⟨_, hl, hn⟩ := rt_val P hP (sd.nss ++ env0) (f.pfx, f.rename) f.leaf v px rx hok hs hr
  refine ⟨hl, ?_⟩
  rw [hn]
  exact key_agree P (complexOf P hP sd hsd).2 sd hsd f hb env0

/-! non-vacuity: a three-struct program (a complex type with a primitive element, a repeated element of a
    type of another namespace, an optional attribute; that type; a simple-type wrapper) meets every hypothesis,
    and a value of it serialises -/
def demoP : Prog := [
  { name := "m::Order", pfx := some "a", nss := [("a", "urn:a"), ("b", "urn:b")], rename := "Order",
    fields := [ { kind := .elem, pfx := some "a", rename := "id", wrap := .one, leaf := .prim (.int "i32") },
                { kind := .elem, pfx := some "b", rename := "item", wrap := .vec, leaf := .struct "n::Item" },
                { kind := .attr, pfx := none, rename := "code", wrap := .opt, leaf := .prim .string } ] },
  { name := "n::Item", pfx := some "b", nss := [("b", "urn:b")], rename := "Item",
    fields := [ { kind := .elem, pfx := some "b", rename := "name", wrap := .one, leaf := .struct "n::Name" } ] },
  { name := "n::Name", pfx := some "b", nss := [("b", "urn:b")], rename := "Name",
    fields := [ { kind := .text, pfx := none, rename := "value", wrap := .one, leaf := .prim .string } ] } ]

def demoV : Val :=
  .struct "m::Order" (.cons (.cons (.prim "7") .nil) (.cons (.cons (.struct "n::Item" (.cons (.cons (.struct "n::Name"
    (.cons (.cons (.prim "x") .nil) .nil)) .nil) .nil)) .nil) (.cons (.cons (.prim "c") .nil) .nil)))

example : declared demoP = true ∧ core demoP = true ∧ okVal demoP (.struct "m::Order") demoV = true ∧
    (serRoot demoP "m::Order" demoV).isSome = true := by decide

end ZeepVerif.Props.C03Ya
