/-
C12 — generation is a deterministic function of the input files.
-/
import ZeepVerif.Model.Emit
import ZeepVerif.Generated.Sites

namespace ZeepVerif.Props.C12
open ZeepVerif ZeepVerif.Model ZeepVerif.Generated

/-- the only containers with an unspecified iteration order are iterated in ways that do not depend on
    that order: clearing every flag, and insert-if-absent of distinct keys. Every other container whose
    order reaches the output is a `Vec` or a `BTreeMap` (no other hash container field exists). -/
theorem c12_no_order_dependent_iteration :
    Sites.hashIterSites.all (fun s => s.2.2.2 == "store-const" || s.2.2.2 == "entry-or-insert") = true ∧
    Sites.hashFields.all (fun f => f.2.2.1 == "namespace_lookup" || f.2.2.1 == "map") = true := by
  decide

/-- registration order: the reader sees the file table only through lookups by name, so two tables
    that answer every lookup alike give the same document -/
theorem c12_registration (files files' : List XFile) (start : String) (fuel : Nat)
    (h : ∀ n, fileTable files n = fileTable files' n) : readXml files start fuel = readXml files' start fuel := by
  have : fileTable files = fileTable files' := funext h
  simp [readXml, this]

/-- permuting the registration order of files with pairwise distinct names does not change any lookup -/
theorem c12_lookup_perm (files files' : List XFile) (hp : files.Perm files')
    (hnd : (files.map (·.name)).Nodup) : ∀ n, fileTable files n = fileTable files' n := by
  intro n
  unfold fileTable
  induction hp with
  | nil => rfl
  | cons x _ ih =>
    simp only [List.map_cons, List.nodup_cons] at hnd
    simp only [List.find?_cons]
    split
    · rfl
    · exact ih hnd.2
  | swap x y l =>
    simp only [List.map_cons, List.nodup_cons, List.mem_cons, not_or] at hnd
    simp only [List.find?_cons]
    by_cases hx : (x.name == n) = true <;> by_cases hy : (y.name == n) = true <;> simp [hx, hy]
    · exfalso
      have h1 : x.name = n := by simpa using hx
      have h2 : y.name = n := by simpa using hy
      exact hnd.1.1 (h2.trans h1.symm)
  | trans h1 _ ih1 ih2 =>
    exact (ih1 hnd).trans (ih2 ((h1.map (·.name)).nodup_iff.mp hnd))

/-- call histories: whatever flags earlier calls left on the object, the next call computes the same
    document (the flags are cleared before they are consulted) -/
theorem c12_repeat (files : String → Option XFile) (start : String) (flags : RS) (fuel : Nat) :
    (readXmlOn files start flags fuel).1 = (readXmlOn files start {} fuel).1 := by
  simp [readXmlOn]

/-- in particular the second and third call on one object return what the first returned -/
theorem c12_history (files : String → Option XFile) (start : String) (fuel : Nat) :
    let r1 := readXmlOn files start {} fuel
    let r2 := readXmlOn files start r1.2 fuel
    let r3 := readXmlOn files start r2.2 fuel
    r2.1 = r1.1 ∧ r3.1 = r1.1 := by
  simp only
  exact ⟨c12_repeat files start _ fuel, c12_repeat files start _ fuel⟩

/-- writing is a function of the document: no state, no clock, no environment enters the text -/
theorem c12_write_function (d d' : Doc) (h : d = d') : writeDoc d = writeDoc d' := by rw [h]

end ZeepVerif.Props.C12
