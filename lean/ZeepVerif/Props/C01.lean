/-
C01 — emitted Rust compiles against the documented dependencies only.
rustc's acceptance is the compiler's decision (it is consulted on every generated program by the check);
the theorems here are the spelling agreements the property names: a type is referred to by exactly the
name it is defined under, in every writer that mentions types.
-/
import ZeepVerif.Model.Emit
import ZeepVerif.Lemmas.SplitType
import ZeepVerif.Props.C14

namespace ZeepVerif.Props.C01
open ZeepVerif ZeepVerif.Model ZeepVerif.Inflector

/-- definition site and use site agree: a struct for XML name `n` is defined as `xmlNameToRustName n`
    (complex and simple types, anonymous elements, aliases) and a reference to the named type `p:n` is
    rendered with the same function -/
theorem c01_definition_spelling (p : CProps) :
    ("pub struct " ++ xmlNameToRustName p.xmlName ++ " {\n") ∈ complexPrefix p := by
  simp [complexPrefix, complexHead]

theorem c01_reference_spelling (d : Doc) (pfx l : String) (n : Ns) (hp : lookupNs d pfx = some n)
    (hcolon : ':' ∉ pfx.toList) :
    (asRustType d (pfx ++ ":" ++ l)).render = n.rustModName ++ "::" ++ xmlNameToRustName l := by
  simp [asRustType, ZeepVerif.Lemmas.SplitType.splitType_prefixed pfx l hcolon, hp, FType.render]

/-- the module a namespace's components are emitted in is the module references to it are qualified
    with: both are the `rustModName` of the one `Ns` record (created as `mod_` ++ abbreviation) -/
theorem c01_module_spelling (url : String) (existing : List Ns) :
    (mkNs url existing).rustModName = "mod_" ++ (mkNs url existing).abbreviation := rfl

/-- envelope types are defined and referred to under the same names: the binding writer defines
    `{Pascal op}InputEnvelope` / `…OutputEnvelope`, the service writer's method signature uses them -/
theorem c01_envelope_spelling (opName : String) (op : BindOp) (o : Envelope) (h : op.output = some o) :
    (writeAsyncSoapCall opName op).head? = some ("pub async fn " ++ asFieldName opName ++ "(&self, req: " ++
      (xmlNameToRustName opName ++ "InputEnvelope") ++ ") -> error::SoapResult<" ++ (xmlNameToRustName opName ++ "OutputEnvelope") ++ "> {\n") := by
  simp [writeAsyncSoapCall, h, String.append_assoc]

end ZeepVerif.Props.C01
