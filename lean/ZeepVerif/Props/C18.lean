/-
C18 — client futures are Send and usable from a multi-threaded runtime.
Two parts, both abstractions of what rustc decides (rustc itself is consulted on every run by the
compiled batches): (i) the emitted data types are built from Send + Sync leaves only; (ii) in the helper
body, as extracted by the translator, no binding whose initializer is `!Send` (Rc, RefCell, a lock
guard, …) exists at all — so none can be alive across an `.await`.
-/
import ZeepVerif.Model.Http
import ZeepVerif.Model.Emit

namespace ZeepVerif.Props.C18
open ZeepVerif ZeepVerif.Model ZeepVerif.Model.Http ZeepVerif.Generated

def sendSyncLeaves : List String := ["String", "i8", "i16", "i32", "i64", "u8", "u16", "u32", "u64", "f32", "f64", "bool"]

/-- every emitted member type is a Send + Sync primitive/String, or a generated struct (whose members
    are again of this form) — under `Option`/`Vec` only (C02's wrapper theorem) -/
theorem c18_leaf_types (t : FType) : t.isOther = true ∨ sendSyncLeaves.contains t.render = true := by
  cases t <;> simp [FType.isOther, FType.render, sendSyncLeaves]

/-- the liveness abstraction: bindings of the helper body that are `!Send` by construction -/
def notSendBindings : List (String × String × Nat) := Send.sendBindings.filter (fun b => b.2.1 != "send")

/-- no `!Send` binding is created in the helper at all; what stays alive across its awaits are the
    request value (`YI`), `&Client`, `&str` and reqwest's own Send types -/
theorem c18_nothing_notsend_across_await : notSendBindings = [] := by decide

/-- the helper suspends exactly twice (`send().await`, `text().await`), after the synchronous check and
    serialisation; the reference-counted restriction data lives only inside those synchronous calls -/
theorem c18_awaits : (helperSteps.filter (· == Step.await)).length = 2 ∧
    helperSteps.idxOf Step.check < helperSteps.idxOf Step.await ∧
    helperSteps.idxOf Step.serialize < helperSteps.idxOf Step.await := by decide

/-- the emitted method body is three fixed lines: it binds borrowed credentials and awaits the helper;
    nothing else is alive in the generated `async fn` -/
theorem c18_method_body (opName : String) (op : BindOp) : (writeAsyncSoapCall opName op).length = 4 ∧
    (writeAsyncSoapCall opName op)[1]? =
      some "    let credentials = self.credentials.as_ref().map(|(u, p)| (u.as_str(), p.as_str()));\n" := by
  cases h : op.output <;> simp [writeAsyncSoapCall, h]

/-- the client struct holds a `reqwest::Client`, a `String` and optional credentials: Send + Sync -/
theorem c18_service_fields (s : Service) :
    (writeService s)[1]? = some "    pub client: reqwest::Client,\n" ∧
    (writeService s)[2]? = some "    pub location: String,\n" ∧
    (writeService s)[3]? = some "    pub credentials: Option<(String, String)>,\n" := by
  simp [writeService]

end ZeepVerif.Props.C18
