/-
The struct description of a complex type, for EVERY input (C02 members, C08 derived members at the level of `ComplexProps::try_from_node`):
name and member list of what `complexFromNode` returns, as a left fold over the type's element children, from the result specifications of
`fieldFromNode` / `importSequence` (C02All) and `importExtension` (C08All).
-/
import ZeepVerif.Props.C08All

namespace ZeepVerif.Props.CpxAll
open ZeepVerif ZeepVerif.Model ZeepVerif.Lemmas.Keeps Std.Do ZeepVerif.Props.C02All ZeepVerif.Props.C08All

set_option mvcgen.warning false

/-- what one child of a `complexType` does to the member list read so far -/
def StepOK (anc : List XNode) (n : XNode) (fs fs' : List Field) : Prop :=
  if n.tag = "complexContent" then
    ∃ (ext : List Field) (blocks : List (List Field)),
      (match n.kids.find? (fun k => k.isElem && k.tag == "extension") with
        | none => ext = []
        | some e => Derived e n anc ext) ∧
      fs' = ext ++ blocks.flatten ∧ blocks.length = (seqKids n.elemKids).length ∧
      ∀ b ∈ blocks, Matches (memberSites n anc) b
  else if n.tag = "sequence" then Matches (memberSites n anc) fs'
  else if n.tag = "attribute" then ∃ f, FieldOf n anc f ∧ fs' = fs ++ [f]
  else fs' = fs

inductive FoldOK (anc : List XNode) : List XNode → List Field → Prop
  | nil : FoldOK anc [] []
  | snoc {p n fs fs'} : FoldOK anc p fs → StepOK anc n fs fs' → FoldOK anc (p ++ [n]) fs'

def nameOf (node : XNode) (anc : List XNode) : Option String :=
  match node.attr? "name" with
  | some n => some n
  | none => (anc.head?).bind (·.attr? "name")

theorem tag_excl {t a b : String} (h1 : (t == a) = true) (h2 : (t == b) = true) (hab : (a == b) = false) : False := by
  have e1 : t = a := by simpa using h1
  have e2 : t = b := by simpa using h2
  subst e1; subst e2; simp at hab

theorem seqKids_snoc_t (p : List XNode) (c : XNode) (h : (c.tag == "sequence") = true) :
    seqKids (p ++ [c]) = seqKids p ++ [c] := by simp [seqKids, List.filter_append, h]
theorem seqKids_snoc_f (p : List XNode) (c : XNode) (h : ¬ (c.tag == "sequence") = true) :
    seqKids (p ++ [c]) = seqKids p := by simp [seqKids, List.filter_append, h]

theorem stepOK_seq {anc n fs fs'} (h1 : ¬ (n.tag == "complexContent") = true) (h2 : (n.tag == "sequence") = true)
    (hm : Matches (memberSites n anc) fs') : StepOK anc n fs fs' := by
  have e1 : n.tag ≠ "complexContent" := by simpa using h1
  have e2 : n.tag = "sequence" := by simpa using h2
  simp [StepOK, e2, hm]

theorem stepOK_attr {anc n fs f} (h1 : ¬ (n.tag == "complexContent") = true) (h2 : ¬ (n.tag == "sequence") = true)
    (h3 : (n.tag == "attribute") = true) (hf : FieldOf n anc f) : StepOK anc n fs (fs ++ [f]) := by
  have e1 : n.tag ≠ "complexContent" := by simpa using h1
  have e2 : n.tag ≠ "sequence" := by simpa using h2
  have e3 : n.tag = "attribute" := by simpa using h3
  simp only [StepOK, e3]
  exact ⟨f, hf, rfl⟩

theorem stepOK_other {anc n fs} (h1 : ¬ (n.tag == "complexContent") = true) (h2 : ¬ (n.tag == "sequence") = true)
    (h3 : ¬ (n.tag == "attribute") = true) : StepOK anc n fs fs := by
  have e1 : n.tag ≠ "complexContent" := by simpa using h1
  have e2 : n.tag ≠ "sequence" := by simpa using h2
  have e3 : n.tag ≠ "attribute" := by simpa using h3
  simp [StepOK, e1, e2, e3]

theorem stepOK_cc {anc n fs fs'} (h1 : (n.tag == "complexContent") = true)
    (h : ∃ (ext : List Field) (blocks : List (List Field)),
      (match n.kids.find? (fun k => k.isElem && k.tag == "extension") with
        | none => ext = []
        | some e => Derived e n anc ext) ∧
      fs' = ext ++ blocks.flatten ∧ blocks.length = (seqKids n.elemKids).length ∧
      ∀ b ∈ blocks, Matches (memberSites n anc) b) : StepOK anc n fs fs' := by
  have e1 : n.tag = "complexContent" := by simpa using h1
  simp only [StepOK, e1]
  exact h

theorem complex_spec (node : XNode) (ctx : Ctx) (fuel : Nat) :
    ⦃fun _ => ⌜True⌝⦄ complexFromNode node ctx fuel
    ⦃post⟨fun r _ => ⌜nameOf node ctx.ancestors = some r.xmlName ∧ FoldOK (node :: ctx.ancestors) node.elemKids r.fields⌝,
          fun _ _ => ⌜True⌝⟩⦄ := by
  cases fuel with
  | zero => mvcgen [complexFromNode]
  | succ fuel =>
    have hext := fun n c => extension_spec n c fuel
    have hseq := fun n c acc => sequence_spec n c acc fuel
    have hfld := fun n c => field_spec n c fuel
    mvcgen [complexFromNode, collectNamespacesOnNode, modifyDoc, getDoc, liftOpt, hext, hseq, hfld]
    case inv1 =>
      rename_i a _ _ _
      exact post⟨fun (c, b) _ => ⌜b.xmlName = a ∧ FoldOK (node :: ctx.ancestors) c.prefix b.fields⌝, fun _ _ => ⌜True⌝⟩
    case inv2 =>
      rename_i cur _ _ _ _ _ _ _ _ r _ _
      exact post⟨fun (c, b) _ => ⌜∃ blocks : List (List Field), b = r ++ blocks.flatten ∧ blocks.length = (seqKids c.prefix).length ∧
        ∀ x ∈ blocks, Matches (memberSites cur (node :: ctx.ancestors)) x⌝, fun _ _ => ⌜True⌝⟩
    all_goals (try simp only [SPred.down_pure] at *)
    all_goals (try intros)
    all_goals (first | trivial | skip)
    case vc1.step.isTrue.success =>
      rename_i hc _ hinv r _ hs
      obtain ⟨blocks, hb, hl, hm⟩ := hinv
      obtain ⟨fs, hr, hfs⟩ := hs
      refine ⟨blocks ++ [fs], ?_, ?_, ?_⟩
      · simp [hr, hb, List.flatten_append]
      · rw [seqKids_snoc_t _ _ hc]; simp [hl]
      · intro b hb'
        rcases List.mem_append.mp hb' with h | h
        · exact hm b h
        · simp at h; subst h; exact hfs
    case vc3.step.isFalse =>
      rename_i hc _ hinv
      obtain ⟨blocks, hb, hl, hm⟩ := hinv
      exact ⟨blocks, hb, by rw [seqKids_snoc_f _ _ hc]; exact hl, hm⟩
    case vc4.step.isTrue.success.pre => exact ⟨[], by simp, by simp [seqKids], by simp⟩
    case vc5.step.isTrue.success.post.success.isTrue.success.isTrue.success =>
      rename_i h1 _ _ _ _ _ _ _ _ _ _ _ h2 _ _ _ _ _ _ _ _ _ _; exact (tag_excl h1 h2 (by decide)).elim
    case vc7.step.isTrue.success.post.success.isTrue.success.isFalse =>
      exact (tag_excl ‹(_ == "complexContent") = true› ‹(_ == "sequence") = true› (by decide)).elim
    case vc9.step.isTrue.success.post.success.isFalse.isTrue.success =>
      exact (tag_excl ‹(_ == "complexContent") = true› ‹(_ == "attribute") = true› (by decide)).elim
    case vc14.step.isFalse.isTrue.success.isTrue.success =>
      exact (tag_excl ‹(_ == "sequence") = true› ‹(_ == "attribute") = true› (by decide)).elim
    case vc11.step.isTrue.success.post.success.isFalse.isFalse =>
      rename_i hcc _ _ hinv r1 _ hext r _ hloop _ _ _ _
      obtain ⟨blocks, hb, hl, hm⟩ := hloop
      exact ⟨rfl, FoldOK.snoc hinv.2 (stepOK_cc hcc ⟨r1, blocks, hext, hb, hl, hm⟩)⟩
    case vc16.step.isFalse.isTrue.success.isFalse =>
      rename_i h1 _ h2 _ _ hinv r _ hs _ _
      obtain ⟨fs, hr, hm⟩ := hs
      refine ⟨rfl, FoldOK.snoc hinv.2 (stepOK_seq h1 h2 ?_)⟩
      show Matches _ r
      rw [hr]; simpa using hm
    case vc18.step.isFalse.isFalse.isTrue.success =>
      rename_i h1 _ h2 h3 _ hinv r _ _ hf
      exact ⟨hinv.1, FoldOK.snoc hinv.2 (stepOK_attr h1 h2 h3 hf)⟩
    case vc20.step.isFalse.isFalse.isFalse =>
      rename_i h1 _ h2 h3 _ hinv
      exact ⟨hinv.1, FoldOK.snoc hinv.2 (stepOK_other h1 h2 h3)⟩
    case vc21.succ.h_1.pre => exact ⟨rfl, FoldOK.nil⟩
    case vc22.succ.h_1.post.success =>
      rename_i hx _ _ r _ hinv
      exact ⟨by rw [hinv.1]; exact hx, hinv.2⟩

/-! ### the same as a left fold in document order, and what it gives for the usual shapes -/

inductive FoldFrom (anc : List XNode) : List XNode → List Field → List Field → Prop
  | nil {fs} : FoldFrom anc [] fs fs
  | cons {n ns fs fs1 fs'} : StepOK anc n fs fs1 → FoldFrom anc ns fs1 fs' → FoldFrom anc (n :: ns) fs fs'

theorem foldOK_from {anc p fs} (h : FoldOK anc p fs) :
    ∀ q fs', FoldFrom anc q fs fs' → FoldFrom anc (p ++ q) [] fs' := by
  induction h with
  | nil => intro q fs' hq; simpa using hq
  | snoc hp hstep ih =>
    intro q fs' hq
    have := ih (_ :: q) fs' (FoldFrom.cons hstep hq)
    simpa [List.append_assoc] using this

theorem foldFrom_of_foldOK {anc p fs} (h : FoldOK anc p fs) : FoldFrom anc p [] fs := by
  simpa using foldOK_from h [] fs FoldFrom.nil

def Other (n : XNode) : Prop := n.tag ≠ "complexContent" ∧ n.tag ≠ "sequence" ∧ n.tag ≠ "attribute"

theorem from_others {anc p fs fs'} (ho : ∀ n ∈ p, Other n) (h : FoldFrom anc p fs fs') : fs' = fs := by
  induction h with
  | nil => rfl
  | cons hstep _ ih =>
    have o := ho _ (List.mem_cons_self ..)
    have := ih (fun n hn => ho n (by simp [hn]))
    simp [StepOK, o.1, o.2.1, o.2.2] at hstep
    rw [this, hstep]

theorem from_attrs {anc p fs fs'} (ha : ∀ n ∈ p, n.tag = "attribute") (h : FoldFrom anc p fs fs') :
    ∃ al, fs' = fs ++ al ∧ MatchesA anc p al := by
  induction h with
  | nil => exact ⟨[], by simp, trivial⟩
  | cons hstep _ ih =>
    have e := ha _ (List.mem_cons_self ..)
    obtain ⟨al, h1, h2⟩ := ih (fun n hn => ha n (by simp [hn]))
    simp only [StepOK, e] at hstep
    obtain ⟨f, hf, hfs⟩ := hstep
    exact ⟨f :: al, by rw [h1, hfs]; simp, ⟨hf, h2⟩⟩

theorem from_append {anc p q fs fs'} (h : FoldFrom anc (p ++ q) fs fs') :
    ∃ m, FoldFrom anc p fs m ∧ FoldFrom anc q m fs' := by
  induction p generalizing fs with
  | nil => exact ⟨fs, FoldFrom.nil, by simpa using h⟩
  | cons x xs ih =>
    cases h with
    | cons hstep hrest =>
      obtain ⟨m, h1, h2⟩ := ih hrest
      exact ⟨m, FoldFrom.cons hstep h1, h2⟩

/-- **C02, a complex type, every input.** Whenever `ComplexProps::try_from_node` returns (any tree, any document state, any fuel) the
    struct description carries the type's name (its own `name`, else the enclosing element's) and its member list is the left fold of
    `StepOK` over the type's element children in document order. -/
theorem c02_complex_type_all_inputs (node : XNode) (ctx : Ctx) (fuel : Nat) (d : Doc) (r : CProps)
    (h : (runNM (complexFromNode node ctx fuel) d).1 = .ok r) :
    nameOf node ctx.ancestors = some r.xmlName ∧ FoldFrom (node :: ctx.ancestors) node.elemKids [] r.fields := by
  have := run_of_triple _ _ _ _ (complex_spec node ctx fuel) d trivial
  revert this h
  rcases runNM (complexFromNode node ctx fuel) d with ⟨res, d'⟩
  cases res with
  | ok a => intro h hh; cases h; exact ⟨hh.1, foldFrom_of_foldOK hh.2⟩
  | error e => intro h; cases h

/-- the usual shape — (annotation …) sequence attribute* — gives exactly one member per member site of the sequence, in order, then
    exactly one per attribute, in order; nothing else -/
theorem c02_plain_type_members (node : XNode) (ctx : Ctx) (fuel : Nat) (d : Doc) (r : CProps)
    (h : (runNM (complexFromNode node ctx fuel) d).1 = .ok r)
    (pre attrs : List XNode) (seq : XNode) (hk : node.elemKids = pre ++ seq :: attrs)
    (hpre : ∀ n ∈ pre, Other n) (hseq : seq.tag = "sequence") (hattrs : ∀ n ∈ attrs, n.tag = "attribute") :
    ∃ b al, r.fields = b ++ al ∧ Matches (memberSites seq (node :: ctx.ancestors)) b ∧ MatchesA (node :: ctx.ancestors) attrs al ∧
      r.fields.length = (memberSites seq (node :: ctx.ancestors)).length + attrs.length := by
  have hf := (c02_complex_type_all_inputs node ctx fuel d r h).2
  rw [hk] at hf
  obtain ⟨m, h1, h2⟩ := from_append hf
  have hm := from_others hpre h1
  subst hm
  cases h2 with
  | cons hstep hrest =>
    simp [StepOK, hseq] at hstep
    obtain ⟨al, e, ha⟩ := from_attrs hattrs hrest
    refine ⟨_, al, e, hstep, ha, ?_⟩
    rw [e, List.length_append, matches_length hstep]
    congr 1
    clear e hrest hf hk
    induction attrs generalizing al with
    | nil => cases al with
      | nil => rfl
      | cons a b => cases ha
    | cons x xs ih => cases al with
      | nil => cases ha
      | cons a b => simp [ih (fun n hn => hattrs n (by simp [hn])) b ha.2]

/-- a type defined by extension — (annotation …) complexContent/extension — has exactly the derived member list of `C08All` -/
theorem c08_derived_type_members (node : XNode) (ctx : Ctx) (fuel : Nat) (d : Doc) (r : CProps)
    (h : (runNM (complexFromNode node ctx fuel) d).1 = .ok r)
    (pre post : List XNode) (cc ext : XNode) (hk : node.elemKids = pre ++ cc :: post)
    (hpre : ∀ n ∈ pre, Other n) (hpost : ∀ n ∈ post, Other n) (hcc : cc.tag = "complexContent")
    (hext : cc.kids.find? (fun k => k.isElem && k.tag == "extension") = some ext)
    (hnoseq : seqKids cc.elemKids = []) :
    Derived ext cc (node :: ctx.ancestors) r.fields := by
  have hf := (c02_complex_type_all_inputs node ctx fuel d r h).2
  rw [hk] at hf
  obtain ⟨m, h1, h2⟩ := from_append hf
  have hm := from_others hpre h1
  subst hm
  cases h2 with
  | cons hstep hrest =>
    have := from_others hpost hrest
    subst this
    simp only [StepOK, hcc, if_true, hext, hnoseq] at hstep
    obtain ⟨e, blocks, hd, hfs, hl, _⟩ := hstep
    have : blocks = [] := by simpa using hl
    subst this
    simpa [hfs] using hd

/-! non-vacuity: a type of the usual shape is read, and the hypotheses of `c02_plain_type_members` hold for it -/
def demoBase : XNode :=
  let nss : List (Option String × String) := [(some "xs", "http://www.w3.org/2001/XMLSchema"), (some "tns", "urn:demo")]
  let el (n t : String) : XNode := .elem "element" [⟨"name", none, n⟩, ⟨"type", none, t⟩] nss none []
  .elem "complexType" [⟨"name", none, "Base"⟩] nss none [
    .elem "annotation" [] nss none [],
    .elem "sequence" [] nss none [el "id" "xs:int", el "label" "xs:string"],
    .elem "attribute" [⟨"name", none, "code"⟩, ⟨"type", none, "xs:string"⟩] nss none []]

def demoRun : Option (String × List (String × Bool)) :=
  match (runNM (complexFromNode demoBase ⟨[], []⟩ 50) {}).1 with
  | .ok r => some (r.xmlName, r.fields.map (fun f => (f.xmlName, f.isAttribute)))
  | .error _ => none

example : demoRun = some ("Base", [("id", false), ("label", false), ("code", true)]) := by decide +kernel
example : demoBase.elemKids.map (·.tag) = ["annotation", "sequence", "attribute"] := by decide +kernel

end ZeepVerif.Props.CpxAll
