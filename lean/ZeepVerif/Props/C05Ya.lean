/-
C05 on the wire, in the yaserde environment model: which element names and namespaces the structs emitted for an
envelope put on the wire. Together with `Props/C03Ya.c03_member_element_name` (a member's element is read back with
the member's `rename` and the namespace its struct's `namespaces` give to its prefix) this is "the Body holds exactly
the element referenced by the bound body part, under its own element QName".
-/
import ZeepVerif.Ya.OfSoap
import ZeepVerif.Lemmas.YaWf

namespace ZeepVerif.Props.C05Ya
open ZeepVerif ZeepVerif.Model ZeepVerif.Ya ZeepVerif.Lemmas.YaWf

/-- target namespaces with pairwise different abbreviations, none of them `soapenv` (C10's invariant) -/
def AbbrInjective (tns : List Ns) : Prop :=
  (∀ a ∈ tns, ∀ b ∈ tns, a.abbreviation = b.abbreviation → a.uri = b.uri) ∧ ∀ a ∈ tns, a.abbreviation ≠ "soapenv"

theorem lookup_tns (tns : List Ns) (ns : Ns) (hmem : ns ∈ tns) (hinj : AbbrInjective tns) :
    nsLookup (soapNss tns) ns.abbreviation = some ns.uri := by
  unfold nsLookup soapNss
  have hne : ("soapenv" == ns.abbreviation) = false := by
    simp only [beq_eq_false_iff_ne, ne_eq]
    exact fun e => hinj.2 ns hmem e.symm
  simp only [List.find?_cons, hne]
  induction tns with
  | nil => cases hmem
  | cons t rest ih =>
    simp only [List.map_cons, List.find?_cons]
    by_cases ht : (t.abbreviation == ns.abbreviation) = true
    · simp only [ht, Option.map_some]
      have := hinj.1 t List.mem_cons_self ns hmem (by simpa using ht)
      rw [this]
    · simp only [ht]
      rcases List.mem_cons.mp hmem with rfl | hm
      · simp at ht
      · exact ih hm ⟨fun a ha b hb => hinj.1 a (List.mem_cons_of_mem _ ha) b (List.mem_cons_of_mem _ hb),
          fun a ha => hinj.2 a (List.mem_cons_of_mem _ ha)⟩

/-- **the Body's member is the bound element, under its own QName**: the single member of `XEnvelopeBody` is
    labelled with the XML name of the element the body part refers to, and the namespace its prefix denotes in
    the struct's `namespaces` is that element's namespace — for every envelope whose body element lives in one of
    the document's target namespaces -/
theorem c05_body_member_qname (envelopeName : String) (env : Envelope) (tns : List Ns) (ns : Ns) (xmlName : String)
    (hns : env.body.inNs = some ns) (hx : env.body.rtype.xmlName = some xmlName) (hmem : ns ∈ tns)
    (hinj : AbbrInjective tns) :
    ∃ sd f, bodyStructOf envelopeName env tns = some sd ∧ sd.fields = [f] ∧ f.kind = .elem ∧ f.wrap = .one ∧
      f.rename = xmlName ∧ sd.fieldNs f = ns.uri ∧ bound sd.nss f.pfx = true := by
  refine ⟨(⟨envelopeName ++ "Body", some ns.abbreviation, soapNss tns, envelopeName ++ "Body", [⟨.elem, some ns.abbreviation, xmlName, .one, partLeaf env.body xmlName⟩]⟩ : StructD),
    (⟨.elem, some ns.abbreviation, xmlName, .one, partLeaf env.body xmlName⟩ : FieldD),
    by simp [bodyStructOf, hx, hns], rfl, rfl, rfl, rfl, ?_, ?_⟩
  · simp [StructD.fieldNs, lookup_tns tns ns hmem hinj]
  · simp [bound, lookup_tns tns ns hmem hinj]

/-- the envelope itself: `Header` (exactly when header parts are bound) then `Body`, both in the SOAP 1.1 envelope
    namespace, under the root `soapenv:Envelope` -/
theorem c05_envelope_members (envelopeName : String) (env : Envelope) (tns : List Ns) :
    let sd := envelopeStructOf envelopeName env tns
    sd.rename = "Envelope" ∧ (sd.pfx.bind (nsLookup sd.nss)) = some soapenvUri ∧
    sd.fields.map (·.rename) = (if env.headers.isEmpty then [] else ["Header"]) ++ ["Body"] ∧
    ∀ f ∈ sd.fields, sd.fieldNs f = soapenvUri ∧ f.wrap = .one := by
  refine ⟨rfl, by simp [envelopeStructOf, soapNss, nsLookup], ?_, ?_⟩
  · cases h : env.headers.isEmpty <;> simp [envelopeStructOf, h]
  · intro f hf
    cases h : env.headers.isEmpty <;> simp [envelopeStructOf, h] at hf
    · rcases hf with rfl | rfl <;> simp [StructD.fieldNs, envelopeStructOf, soapNss, nsLookup]
    · subst hf; simp [StructD.fieldNs, envelopeStructOf, soapNss, nsLookup]

/-- every header member is optional and labelled with the XML name of the element its part refers to -/
theorem c05_header_members (envelopeName : String) (env : Envelope) (tns : List Ns) (sd : StructD)
    (h : headerStructOf envelopeName env tns = some sd) :
    sd.fields.length = env.headers.length ∧ ∀ f ∈ sd.fields, f.wrap = .opt ∧ f.kind = .elem := by
  simp only [headerStructOf, Option.map_eq_some_iff] at h
  obtain ⟨fs, hfs, rfl⟩ := h
  simp only
  have : ∀ (l : List (String × RNode)) (fs : List FieldD),
      l.mapM (fun (ph : String × RNode) => ph.2.rtype.xmlName.map fun xmlName =>
        ({ kind := .elem, pfx := ph.2.inNs.map (·.abbreviation), rename := xmlName, wrap := .opt, leaf := partLeaf ph.2 xmlName } : FieldD)) = some fs →
      fs.length = l.length ∧ ∀ f ∈ fs, f.wrap = .opt ∧ f.kind = .elem := by
    intro l
    induction l with
    | nil => intro fs h; simp at h; subst h; simp
    | cons x rest ih =>
      intro fs h
      simp only [List.mapM_cons, Option.bind_eq_bind, Option.bind_eq_some_iff, Option.map_eq_some_iff] at h
      obtain ⟨f, ⟨xn, _, rfl⟩, fs', hfs', hpure⟩ := h
      simp only [Option.pure_def, Option.some.injEq] at hpure
      subst hpure
      obtain ⟨i1, i2⟩ := ih fs' hfs'
      refine ⟨by simp [i1], ?_⟩
      intro g hg
      rcases List.mem_cons.mp hg with rfl | hg
      · exact ⟨rfl, rfl⟩
      · exact i2 g hg
  exact this env.headers fs hfs

/-- the writer emits the spelling of that member (shown for a direction without header parts; with header parts the
    same lines follow the header struct — covered by the byte-exact correspondence) -/
theorem c05_body_member_spelled_partial (envelopeName : String) (body : RNode) (tns : List Ns) (ns : Ns) (xmlName : String)
    (hns : body.inNs = some ns) (hx : body.rtype.xmlName = some xmlName) (chunks : List String)
    (h : writeSoapOperation envelopeName ⟨[], body⟩ tns = .ok chunks) :
    spellField ⟨.elem, some ns.abbreviation, xmlName, .one, partLeaf body xmlName⟩ ∈ chunks := by
  simp only [writeSoapOperation, hns, hx] at h
  simp [pure, Except.pure] at h
  subst h
  simp [spellField]

/-! non-vacuity -/
example : AbbrInjective [⟨"urn:a", "a", "mod_a"⟩, ⟨"urn:b", "b", "mod_b"⟩] := by
  constructor
  · intro a ha b hb h
    simp at ha hb
    rcases ha with rfl | rfl <;> rcases hb with rfl | rfl <;> simp_all
  · intro a ha
    simp at ha
    rcases ha with rfl | rfl <;> decide

end ZeepVerif.Props.C05Ya
