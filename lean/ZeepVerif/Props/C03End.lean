/-
C03, end to end on the covered fragment: from the tree the real parser produced for a schema file, through the
reader model (refinement theorems), to the derive input of the emitted structs (`Ya.progOf`), to the wire: every
value of every generated struct serialises to namespace-well-formed XML.
-/
import ZeepVerif.Lemmas.ReadDecideX
import ZeepVerif.Lemmas.YaOfDoc
import ZeepVerif.Props.C03Ya

namespace ZeepVerif.Props.C03End
open ZeepVerif ZeepVerif.Model ZeepVerif.Ya ZeepVerif.Lemmas.ReadField ZeepVerif.Lemmas.ReadFile ZeepVerif.Lemmas.ReadComp
open ZeepVerif.Lemmas.ReadExt ZeepVerif.Lemmas.ReadDecideX ZeepVerif.Lemmas.YaOfDoc ZeepVerif.Lemmas.YaWf

theorem complexStepX_tns (d : Doc) (name : String) (anc : List XNode) (r : CProps) (n : XNode) (h : r.tns = d.current) :
    (complexStepX d name anc r n).tns = d.current := by
  unfold complexStepX
  split
  · split
    · rfl
    · exact h
  · unfold complexStep
    split
    · rfl
    · split
      · exact h
      · exact h

theorem complexOfX_tns (d : Doc) (node : XNode) (anc : List XNode) (name : String) :
    (complexOfX d node anc name).tns = d.current := by
  unfold complexOfX
  generalize hr : ({ xmlName := name, fields := [], tns := d.current, comment := parseComment node } : CProps) = r
  have h0 : r.tns = d.current := by rw [← hr]
  clear hr
  induction node.elemKids generalizing r with
  | nil => exact h0
  | cons k rest ih => exact ih _ (complexStepX_tns d name (node :: anc) r k h0)

theorem nodeOfX_ok (d : Doc) (anc : List XNode) (k : XNode) (n : RNode) (hcur : d.current.isSome = true)
    (h : nodeOfX d anc k = some n) : NodeOK n := by
  unfold nodeOfX at h
  split at h
  · unfold compOfX at h
    split at h
    · simp only [Option.map_eq_some_iff] at h
      obtain ⟨name, _, rfl⟩ := h
      simp only [NodeOK, NoneOK]
      intro hn
      rw [complexOfX_tns] at hn
      simp [hn] at hcur
    · split at h
      · split at h
        · simp only [Option.map_eq_some_iff] at h
          obtain ⟨b, _, rfl⟩ := h
          simp [NodeOK]
        · cases h
      · split at h
        · split at h
          · cases h
          · split at h
            · simp only [Option.some.injEq] at h; subst h; simp [NodeOK]
            · split at h
              · simp only [Option.some.injEq] at h
                subst h
                simp only [NodeOK, NoneOK]
                intro hn
                rw [complexOfX_tns] at hn
                simp [hn] at hcur
              · simp only [Option.some.injEq] at h; subst h; simp [NodeOK]
        · cases h
  · cases h

theorem nodesFrom_ok (d : Doc) (anc : List XNode) (hcur : d.current.isSome = true) : (kids : List XNode) → (acc : List RNode) →
    (∀ n ∈ acc, NodeOK n) → ∀ n ∈ nodesFrom d anc kids acc, NodeOK n
  | [], acc, h => h
  | k :: rest, acc, h => by
    apply nodesFrom_ok d anc hcur rest
    intro n hn
    rcases List.mem_append.mp hn with hn | hn
    · exact h n hn
    · cases hq : nodeOfX { d with nodes := acc } anc k with
      | none => simp [hq] at hn
      | some m =>
        simp only [hq, Option.toList_some, List.mem_singleton] at hn
        subst hn
        exact nodeOfX_ok { d with nodes := acc } anc k _ hcur hq

theorem fileDoc_current (schema : XNode) (tns : String) : (fileDoc schema tns).current.isSome = true := by
  unfold fileDoc Doc.switchToTargetNamespace
  have h0 : ∀ (nss : List (Option String × String)) (d : Doc), d.targetNamespaces = [] → (d.collectNamespaces nss).targetNamespaces = [] := by
    intro nss
    induction nss with
    | nil => intro d h; exact h
    | cons e rest ih =>
      intro d h
      rw [collectNamespaces_eq, List.foldl_cons, ← collectNamespaces_eq]
      apply ih
      obtain ⟨p, u⟩ := e
      cases p with
      | some a =>
        simp only [nsStep, Doc.addNamespaceReference]
        split
        · exact h
        · split
          · exact h
          · split
            · exact h
            · split <;> exact h
      | none =>
        simp only [nsStep, Doc.addDefaultNamespace]
        split <;> exact h
  rw [h0 schema.nss {} rfl]
  simp

theorem collect_nodes (nss : List (Option String × String)) : ∀ d : Doc, (d.collectNamespaces nss).nodes = d.nodes := by
  induction nss with
  | nil => intro d; rfl
  | cons e rest ih =>
    intro d
    rw [collectNamespaces_eq, List.foldl_cons, ← collectNamespaces_eq, ih]
    obtain ⟨p, u⟩ := e
    cases p with
    | some a =>
      simp only [nsStep, Doc.addNamespaceReference]
      split
      · rfl
      · split
        · rfl
        · split
          · rfl
          · split <;> rfl
    | none =>
      simp only [nsStep, Doc.addDefaultNamespace]
      split <;> rfl

theorem fileDoc_nodes (schema : XNode) (tns : String) : (fileDoc schema tns).nodes = [] := by
  unfold fileDoc Doc.switchToTargetNamespace
  split
  · exact collect_nodes schema.nss {}
  · exact collect_nodes schema.nss {}

/-- **end to end**: whenever the decidable hypothesis holds of the parsed schema file, the reader returns a document,
    and every value of every struct emitted for that document serialises to XML in which every prefix used is
    declared -/
theorem c03_end_to_end (xf : XFile) (h : coveredFileXB xf = true) :
    ∃ doc, readXml [xf] xf.name = .ok doc ∧
      ∀ (n : String) (v : Val) (px : PX), serRoot (progOf doc) n v = some px → (resolve [] px).isSome := by
  obtain ⟨schema, tns, _, hread⟩ := readXml_of_coveredFileXB xf h
  refine ⟨_, hread, ?_⟩
  intro n v px hs
  apply serRoot_resolves _ _ n v px hs
  apply progOf_declared
  intro m hm
  exact nodesFrom_ok (fileDoc schema tns) [schema] (fileDoc_current schema tns) schema.kids _
    (by intro x hx; rw [fileDoc_nodes] at hx; cases hx) m hm

end ZeepVerif.Props.C03End
