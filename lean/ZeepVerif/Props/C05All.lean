/-
C05, binding level, for EVERY binding node and port-type operation: which message parts an operation's envelope holds.
`read_port_operation` (model `bindingEnvelope`) equals the closed form `envelopeOf` (proved over the monadic model with
mvcgen, `Lemmas/Envelope`), and about the closed form:
  * the Body holds the node of the part named by `soap:body parts=`, or else of the first part of the direction's own
    message (input message for `<wsdl:input>`, output message for `<wsdl:output>`) that no `soap:header` binds;
  * the Header holds exactly one entry per `soap:header` child, in document order, each the node of the named part of
    that same message;
  * a header part is never the implicit body.
(What node a part denotes — the global element its `element=` QName refers to — is `messageFromNode` + C09.)
-/
import ZeepVerif.Lemmas.Envelope

namespace ZeepVerif.Props.C05All
open ZeepVerif ZeepVerif.Model ZeepVerif.Lemmas.Keeps ZeepVerif.Lemmas.Envelope

/-- **closed form**: on every input the reader's envelope for a direction is `envelopeOf`, and reading it leaves the document alone -/
theorem c05_envelope_closed_form (n : XNode) (po : PortOp) (isInput : Bool) (d : Doc) :
    runNM (bindingEnvelope n po isInput) d = (envelopeOf n po isInput, d) := by
  have := run_of_triple _ _ _ _ (bindingEnvelope_spec n po isInput d) d rfl
  revert this
  rcases runNM (bindingEnvelope n po isInput) d with ⟨r, d'⟩
  cases r with
  | ok a => intro ⟨h1, h2⟩; rw [h1, h2]
  | error e => intro ⟨h1, h2⟩; rw [h1, h2]

/-- the part of the direction's own message -/
def partOf (po : PortOp) (isInput : Bool) (name : String) : Option RNode :=
  ((msgOf po isInput).bind (fun m => bmGet m.parts name)).map (·.1)

theorem partNode_ok (po : PortOp) (isInput : Bool) (part : String) (rn : RNode) (h : partNode po isInput part = .ok rn) :
    partOf po isInput (splitType part).1 = some rn := by
  unfold partNode at h
  unfold partOf
  split at h
  · next r ns hr => cases h; simp [hr]
  · cases h

/-- **explicit body part**: with `soap:body parts="p"` the Body is the node of part `p` (prefix stripped) of the message of that
    direction — the input message for `<wsdl:input>`, the output message for `<wsdl:output>` -/
theorem c05_body_is_the_named_part (n : XNode) (po : PortOp) (isInput : Bool) (env : Envelope) (b : XNode) (parts : String)
    (h : envelopeOf n po isInput = .ok env) (hb : firstElemKid n "body" = some b) (hp : b.attr? "parts" = some parts) :
    partOf po isInput (splitType parts).1 = some env.body := by
  unfold envelopeOf at h
  cases hbody : bodyOf n po isInput with
  | error e => simp [hbody] at h
  | ok body =>
    simp only [hbody] at h
    cases hh : headersOf po isInput (elemKidsTagged n "header") with
    | error e => simp [hh] at h
    | ok hs =>
      simp only [hh, Except.ok.injEq] at h
      subst h
      unfold bodyOf at hbody
      simp only [hb, hp] at hbody
      cases hu : b.attr? "use" with
      | none => simp [hu] at hbody
      | some enc =>
        simp only [hu] at hbody
        split at hbody
        · cases hbody
        · exact partNode_ok po isInput parts body hbody

/-- **implicit body part**: without `parts=` the Body is the node of the first part of the direction's message whose name no
    `soap:header` of that direction binds — in particular never a header part -/
theorem c05_implicit_body_is_first_unbound_part (n : XNode) (po : PortOp) (isInput : Bool) (env : Envelope) (b : XNode)
    (h : envelopeOf n po isInput = .ok env) (hb : firstElemKid n "body" = some b) (hp : b.attr? "parts" = none) :
    ∃ msg kv, msgOf po isInput = some msg ∧
      msg.parts.find? (fun kv => !((elemKidsTagged n "header").filterMap (·.attr? "part")).contains kv.1) = some kv ∧
      kv.1 ∉ (elemKidsTagged n "header").filterMap (·.attr? "part") ∧ env.body = kv.2.1 := by
  unfold envelopeOf at h
  cases hbody : bodyOf n po isInput with
  | error e => simp [hbody] at h
  | ok body =>
    simp only [hbody] at h
    cases hh : headersOf po isInput (elemKidsTagged n "header") with
    | error e => simp [hh] at h
    | ok hs =>
      simp only [hh, Except.ok.injEq] at h
      subst h
      unfold bodyOf at hbody
      simp only [hb, hp] at hbody
      cases hu : b.attr? "use" with
      | none => simp [hu] at hbody
      | some enc =>
        simp only [hu] at hbody
        split at hbody
        · cases hbody
        · cases hm : msgOf po isInput with
          | none => rw [hm] at hbody; cases hbody
          | some msg =>
            rw [hm] at hbody
            cases hf : msg.parts.find? (fun kv => !((elemKidsTagged n "header").filterMap (·.attr? "part")).contains kv.1) with
            | none => rw [Option.bind_some, hf] at hbody; cases hbody
            | some kv =>
              rw [Option.bind_some, hf] at hbody
              obtain ⟨k, rn, ns⟩ := kv
              simp only [Except.ok.injEq] at hbody
              subst hbody
              refine ⟨msg, (k, rn, ns), rfl, hf, ?_, rfl⟩
              have := List.find?_some hf
              simpa using this

theorem headersOf_spec (po : PortOp) (isInput : Bool) : ∀ (hn : List XNode) (hs : List (String × RNode)),
    headersOf po isInput hn = .ok hs →
    hs.map (·.1) = hn.filterMap (·.attr? "part") ∧ hs.length = hn.length ∧
    ∀ e ∈ hs, partOf po isInput (splitType e.1).1 = some e.2 := by
  intro hn
  induction hn with
  | nil => intro hs h; simp [headersOf] at h; subst h; simp
  | cons x xs ih =>
    intro hs h
    simp only [headersOf] at h
    cases hx : x.attr? "part" with
    | none => simp [hx] at h
    | some part =>
      simp only [hx] at h
      cases hp : partNode po isInput part with
      | error e => simp [hp] at h
      | ok rn =>
        simp only [hp] at h
        cases hr : headersOf po isInput xs with
        | error e => simp [hr] at h
        | ok rest =>
          simp only [hr, Except.ok.injEq] at h
          subst h
          obtain ⟨h1, h2, h3⟩ := ih rest hr
          refine ⟨by simp [hx, h1], by simp [h2], ?_⟩
          intro e he
          rcases List.mem_cons.mp he with rfl | he
          · exact partNode_ok po isInput part rn hp
          · exact h3 e he

/-- **header entries**: exactly one per `soap:header` child of the direction, in document order, named by its `part` attribute,
    each holding the node of that part of the direction's own message -/
theorem c05_headers_are_the_bound_parts (n : XNode) (po : PortOp) (isInput : Bool) (env : Envelope)
    (h : envelopeOf n po isInput = .ok env) :
    env.headers.map (·.1) = (elemKidsTagged n "header").filterMap (·.attr? "part") ∧
    env.headers.length = (elemKidsTagged n "header").length ∧
    ∀ e ∈ env.headers, partOf po isInput (splitType e.1).1 = some e.2 := by
  unfold envelopeOf at h
  cases hbody : bodyOf n po isInput with
  | error e => simp [hbody] at h
  | ok body =>
    simp only [hbody] at h
    cases hh : headersOf po isInput (elemKidsTagged n "header") with
    | error e => simp [hh] at h
    | ok hs =>
      simp only [hh, Except.ok.injEq] at h
      subst h
      exact headersOf_spec po isInput _ hs hh

/-! non-vacuity: an output direction with a header part `Ack` that sorts before the body part `parameters` -/
example :
    let ack : RNode := ⟨.element ⟨"Ack", .unsupported⟩, none⟩
    let resp : RNode := ⟨.element ⟨"Resp", .unsupported⟩, none⟩
    let out : Msg := { xmlName := "Out", parts := [("Ack", (ack, none)), ("parameters", (resp, none))] }
    let po : PortOp := { input := { xmlName := "In", parts := [("parameters", (ack, none))] }, output := some out }
    let n : XNode := .elem "output" [] [] none [
      .elem "header" [⟨"message", none, "tns:Out"⟩, ⟨"part", none, "Ack"⟩, ⟨"use", none, "literal"⟩] [] none [],
      .elem "body" [⟨"use", none, "literal"⟩] [] none []]
    (envelopeOf n po false).toOption.map (fun e => (e.body.rtype.xmlName, e.headers.map (·.1))) = some (some "Resp", ["Ack"]) := by
  decide

end ZeepVerif.Props.C05All
