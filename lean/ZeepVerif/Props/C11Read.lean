/-
C11 (and the file-crossing half of C08/C09) as refinement statements about the monadic reader model: `read_xml` on a
set of files in which the start file imports leaf files.
-/
import ZeepVerif.Lemmas.ReadImport
import ZeepVerif.Lemmas.ReadDecideG
import ZeepVerif.Lemmas.ReadGraph
import ZeepVerif.Lemmas.ReadGraphProps

namespace ZeepVerif.Props.C11Read
open ZeepVerif ZeepVerif.Model ZeepVerif.Lemmas.ReadField ZeepVerif.Lemmas.ReadFile ZeepVerif.Lemmas.ReadExt
open ZeepVerif.Lemmas.ReadImport ZeepVerif.Lemmas.ReadDecideG ZeepVerif.Lemmas.ReadGraph ZeepVerif.Lemmas.ReadGraphProps

/-- **`read_xml` on a file set with one level of imports**: the reader's result is the fold of `stepG` over the
    children of the start file's `schema`: an import of a leaf file that has not been read merges that file's
    closed-form document (read from the importer's namespaces and the nodes read so far) and marks it; an import of
    a file that has been read is skipped; a component appends its node — a derived type finds its base among the
    nodes read so far, whether they come from this file or from an imported one. The hypothesis is a Boolean the
    driver evaluates on the real parse of every multi-file input. -/
theorem c11_file_set_read (fs : List XFile) (start : String) (h : startFileB fs start = true) :
    ∃ (schema : XNode) (tns : String), readXml fs start =
      .ok (schema.kids.foldl (stepG (fileTable fs) [schema]) (fileDoc schema tns, { processed := [start] })).1 :=
  readXml_of_startFileB fs start h

/-- each file is read at most once: the list of processed files never holds a name twice -/
theorem c11_read_once (files : String → Option XFile) (anc : List XNode) :
    (kids : List XNode) → (p : Doc × RS) → p.2.processed.Nodup → (kids.foldl (stepG files anc) p).2.processed.Nodup
  | [], _, h => h
  | k :: rest, p, h => by
    rw [List.foldl_cons]
    apply c11_read_once files anc rest
    unfold stepG
    split
    · split
      · split
        · split
          · exact h
          · rename_i hnp
            split
            · simp only
              refine List.nodup_cons.mpr ⟨?_, h⟩
              simpa using hnp
            · exact h
        · exact h
      · exact h
    · exact h

/-- the locations the children of a `schema` import -/
def importLocs (kids : List XNode) : List String :=
  kids.filterMap fun k => if k.tag == "import" then k.attr? "schemaLocation" else none

theorem stepG_congr (files files' : String → Option XFile) (anc : List XNode) (p : Doc × RS) (k : XNode)
    (h : ∀ loc, k.tag = "import" → k.attr? "schemaLocation" = some loc → files loc = files' loc) :
    stepG files anc p k = stepG files' anc p k := by
  unfold stepG
  by_cases ht : (k.tag == "import") = true
  · simp only [ht, if_true]
    cases hl : k.attr? "schemaLocation" with
    | none => rfl
    | some loc => simp only [h loc (by simpa using ht) hl]
  · simp only [ht, Bool.false_eq_true, if_false]

/-- **files that are not imported never matter**: two file tables that agree on every location the start schema
    imports give the same document — whatever else they contain, add, drop or change -/
theorem c11_unreachable_irrelevant (files files' : String → Option XFile) (anc : List XNode) :
    (kids : List XNode) → (p : Doc × RS) → (∀ loc ∈ importLocs kids, files loc = files' loc) →
    kids.foldl (stepG files anc) p = kids.foldl (stepG files' anc) p
  | [], _, _ => rfl
  | k :: rest, p, h => by
    rw [List.foldl_cons, List.foldl_cons]
    have hk : stepG files anc p k = stepG files' anc p k := by
      apply stepG_congr
      intro loc ht hl
      apply h loc
      simp only [importLocs, List.filterMap_cons]
      simp [ht, hl]
    rw [hk]
    apply c11_unreachable_irrelevant files files' anc rest
    intro loc hloc
    apply h loc
    simp only [importLocs, List.filterMap_cons] at hloc ⊢
    split
    · exact hloc
    · exact List.mem_cons_of_mem _ hloc

/-- **any import graph**: `readFileG` is a pure reader for file sets whose files consist of covered components and
    imports of registered files — to any nesting depth, with diamonds, self imports and cycles (an import of a file
    that is being read or has been read is skipped). Whenever it returns a result for the start file, the monadic
    reader model (`read_xml`, fuel and all) returns that document. The hypothesis is decidable and evaluated by the
    driver on the real parse of every generated file set. -/
theorem c11_graph_read (fs : List XFile) (start : String) (depth : Nat) (hd : 3 * depth ≤ 10000) (r : Doc × RS)
    (h : readFileG (fileTable fs) depth start [] [] { processed := [] } = some r) :
    readXml fs start = .ok r.1 :=
  readXml_graph fs start depth hd r h

/-- … and along the way no file is read twice: the processed list of the result holds every name once -/
theorem c11_graph_read_once (fs : List XFile) (start : String) (depth : Nat) (r : Doc × RS)
    (h : readFileG (fileTable fs) depth start [] [] { processed := [] } = some r) : r.2.processed.Nodup :=
  readFileG_once (fileTable fs) depth start [] [] { processed := [] } r List.nodup_nil h

/-! non-vacuity: a start file that imports a leaf file, derives a type from a base of the imported namespace, and
    imports the same file a second time (skipped) -/
def demoSet : List XFile :=
  let nssA : List (Option String × String) := [(some "xs", "http://www.w3.org/2001/XMLSchema"), (some "tns", "urn:a"), (some "b", "urn:b")]
  let nssB : List (Option String × String) := [(some "xs", "http://www.w3.org/2001/XMLSchema"), (some "tns", "urn:b")]
  let el (nss : List (Option String × String)) (n t : String) : XNode := .elem "element" [⟨"name", none, n⟩, ⟨"type", none, t⟩] nss none []
  [ { name := "a.xsd", urls := [],
      tops := some [.elem "schema" [⟨"targetNamespace", none, "urn:a"⟩] nssA none [
        .elem "import" [⟨"namespace", none, "urn:b"⟩, ⟨"schemaLocation", none, "b.xsd"⟩] nssA none [],
        .other,
        .elem "complexType" [⟨"name", none, "Derived"⟩] nssA none [
          .elem "complexContent" [] nssA none [.elem "extension" [⟨"base", none, "b:Base"⟩] nssA none [
            .elem "sequence" [] nssA none [el nssA "note" "xs:string"]]]],
        .elem "import" [⟨"namespace", none, "urn:b"⟩, ⟨"schemaLocation", none, "b.xsd"⟩] nssA none []]] },
    { name := "b.xsd", urls := [],
      tops := some [.elem "schema" [⟨"targetNamespace", none, "urn:b"⟩] nssB none [
        .elem "complexType" [⟨"name", none, "Base"⟩] nssB none [.elem "sequence" [] nssB none [el nssB "id" "xs:int"]]]] },
    { name := "unrelated.xsd", urls := [], tops := none } ]

example : startFileB demoSet "a.xsd" = true := by decide

/-- a cycle: `a.xsd` imports `b.xsd`, which imports `a.xsd` back and itself -/
def demoCycle : List XFile :=
  let nssA : List (Option String × String) := [(some "xs", "http://www.w3.org/2001/XMLSchema"), (some "tns", "urn:a"), (some "b", "urn:b")]
  let nssB : List (Option String × String) := [(some "xs", "http://www.w3.org/2001/XMLSchema"), (some "tns", "urn:b"), (some "a", "urn:a")]
  let el (nss : List (Option String × String)) (n t : String) : XNode := .elem "element" [⟨"name", none, n⟩, ⟨"type", none, t⟩] nss none []
  [ { name := "a.xsd", urls := [],
      tops := some [.elem "schema" [⟨"targetNamespace", none, "urn:a"⟩] nssA none [
        .elem "import" [⟨"namespace", none, "urn:b"⟩, ⟨"schemaLocation", none, "b.xsd"⟩] nssA none [],
        .elem "complexType" [⟨"name", none, "A"⟩] nssA none [.elem "sequence" [] nssA none [el nssA "b" "b:B"]]]] },
    { name := "b.xsd", urls := [],
      tops := some [.elem "schema" [⟨"targetNamespace", none, "urn:b"⟩] nssB none [
        .elem "import" [⟨"namespace", none, "urn:a"⟩, ⟨"schemaLocation", none, "a.xsd"⟩] nssB none [],
        .elem "import" [⟨"namespace", none, "urn:b"⟩, ⟨"schemaLocation", none, "b.xsd"⟩] nssB none [],
        .elem "complexType" [⟨"name", none, "B"⟩] nssB none [.elem "sequence" [] nssB none [el nssB "id" "xs:int"]]]] } ]

example : (readFileG (fileTable demoCycle) 5 "a.xsd" [] [] { processed := [] }).isSome = true := by decide

end ZeepVerif.Props.C11Read
