/-
C17 — CLI: result depends on file contents only; failures keep the old output.
Theorems about the interpreter of `main`'s effect list as extracted from zeep/src/main.rs on every run.
-/
import ZeepVerif.Model.Cli

namespace ZeepVerif.Props.C17
open ZeepVerif.Model.Cli ZeepVerif.Generated

theorem c17_all_steps_modelled : cliSteps.all (fun s => match s with | .other _ => false | _ => true) = true := by
  decide

/-- when generation fails — the input cannot be read, or reading or writing the document fails — the tool
    exits with a non-zero status and whatever was at the output path is still there, byte for byte
    (also when there was nothing) -/
theorem c17_failure_preserves (env : Env) (old : Option (List Char))
    (h : env.inputOk = false ∨ env.readOk = false ∨ env.writeOk = false) :
    (∃ stage, (main env old).1 = .failure stage) ∧ (main env old).2.out = old := by
  obtain ⟨i, r, w, c, f, t⟩ := env
  simp only [main, cliSteps, Cli.cliSteps, List.map_cons, List.map_nil, parseStep]
  cases i <;> cases r <;> cases w <;> simp_all [run]

/-- on success the output path holds exactly the text the library emitted: nothing of a previous,
    longer file survives, nothing is prepended or appended -/
theorem c17_success_exact (env : Env) (old : Option (List Char)) (h : (main env old).1 = .success) :
    (main env old).2.out = some env.text := by
  obtain ⟨i, r, w, c, f, t⟩ := env
  simp only [main, cliSteps, Cli.cliSteps, List.map_cons, List.map_nil, parseStep] at h ⊢
  cases i <;> cases r <;> cases w <;> cases c <;> cases f <;> simp_all [run]

/-- and the tool succeeds whenever every stage does -/
theorem c17_success_when_all_ok (t : List Char) (old : Option (List Char)) :
    (main ⟨true, true, true, true, true, t⟩ old).1 = .success := by
  simp [main, cliSteps, Cli.cliSteps, parseStep, run]

/-- the default output path is the input path with the extension replaced by `rs`; a bare file name is
    looked up in the current directory; only `.xsd` siblings are registered -/
theorem c17_paths : cliSteps.contains .withExtensionRs = true ∧ Cli.emptyParentIsCwd = true ∧ Cli.siblingsOnlyXsd = true := by
  decide

/-! non-vacuity, and what the theorem excludes: an effect list that creates the file first loses the old file -/
example : (run ⟨true, false, true, true, true, ['x']⟩ [.readInput, .abortOnError, .create, .abortOnError, .readXml, .abortOnError] { out := some ['o', 'l', 'd'] }).2.out = some [] := by
  decide
example : (main ⟨true, false, true, true, true, ['x']⟩ (some ['o', 'l', 'd'])).2.out = some ['o', 'l', 'd'] := by decide

end ZeepVerif.Props.C17
