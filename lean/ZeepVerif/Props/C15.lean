/-
C15 — output-sink failures are reported: no panic, no false success.
-/
import ZeepVerif.Model.Sink
import ZeepVerif.Generated.Sites

namespace ZeepVerif.Props.C15
open ZeepVerif.Model.Sink ZeepVerif.Generated

/-- every `write!`/`writeln!` of the generator propagates its result with `?`; the only other use is the
    value of `impl Display for RustFieldType::fmt`, which writes into a `Formatter`, not into the sink, and
    returns the result to its caller -/
theorem c15_sites :
    Sites.writeSites.all (fun s => s.2.2 == "propagate" || (s.2.2 == "returned" && s.2.1 == "fmt")) = true := by
  decide

/-- there are write sites to speak about (the inventory is not empty) -/
theorem c15_sites_nonempty : Sites.writeSites.length ≥ 50 := by decide

/-- `write_all` fails exactly when it saw a failing `write`: a `false` result sets `sawFailure`, or the
    sink interrupted until the retries ran out -/
theorem writeAll_ok_no_new_failure (sink : Sink) :
    ∀ fuel buf st, (writeAll sink fuel buf st).1 = true → (writeAll sink fuel buf st).2.sawFailure = st.sawFailure := by
  intro fuel
  induction fuel with
  | zero => intro buf st h; simp [writeAll] at h
  | succ fuel ih =>
    intro buf st h
    cases buf with
    | nil => simp [writeAll]
    | cons c cs =>
      unfold writeAll at h ⊢
      split at h <;> simp_all

/-- the central statement: when all sites propagate, a run that reports success saw no failing `write`
    — whatever the sink does, at whatever call index, with whatever error; and it never panics -/
theorem c15_no_false_success (sink : Sink) (fuel : Nat) :
    ∀ (chunks : List (List Char × Handling)) (st : St),
      (∀ c ∈ chunks, c.2 = Handling.propagate) →
      ((run sink fuel chunks st).1 ≠ Outcome.panic) ∧
      ((run sink fuel chunks st).1 = Outcome.ok → (run sink fuel chunks st).2.sawFailure = st.sawFailure) := by
  intro chunks
  induction chunks with
  | nil => intro st _; simp [run]
  | cons ch rest ih =>
    intro st hall
    obtain ⟨buf, h⟩ := ch
    have hp : h = Handling.propagate := hall (buf, h) List.mem_cons_self
    subst hp
    have hrest : ∀ c ∈ rest, c.2 = Handling.propagate := fun c hc => hall c (List.mem_cons_of_mem _ hc)
    unfold run
    cases hw : writeAll sink fuel buf st with
    | mk okb st' =>
      cases okb with
      | true =>
        simp only
        have hs := writeAll_ok_no_new_failure sink fuel buf st (by simp [hw])
        simp only [hw] at hs
        obtain ⟨h1, h2⟩ := ih st' hrest
        exact ⟨h1, fun hok => by rw [h2 hok, hs]⟩
      | false => simp

/-- a failing `write` (an error, or `Ok(0)`) at any point makes the run report an I/O error -/
theorem c15_failure_reported (sink : Sink) (fuel : Nat) (chunks : List (List Char × Handling))
    (hall : ∀ c ∈ chunks, c.2 = Handling.propagate)
    (hfail : (run sink fuel chunks {}).2.sawFailure = true) :
    (run sink fuel chunks {}).1 = Outcome.ioErr := by
  have ⟨hnp, hok⟩ := c15_no_false_success sink fuel chunks {} hall
  cases h : (run sink fuel chunks {}).1 with
  | ok => have := hok h; simp [hfail] at this
  | ioErr => rfl
  | panic => exact absurd h hnp

/-- a sink that accepts only part of each buffer (at least one byte per call) still receives every byte,
    in order: `write_all` completes and the collected bytes are the old ones followed by the buffer -/
theorem c15_writeAll_short (sink : Sink) (hpos : ∀ k len, ∃ n, 1 ≤ n ∧ sink k len = .accept n) :
    ∀ fuel buf st, buf.length < fuel →
      (writeAll sink fuel buf st).1 = true ∧ (writeAll sink fuel buf st).2.collected = st.collected ++ buf ∧
      (writeAll sink fuel buf st).2.sawFailure = st.sawFailure := by
  intro fuel
  induction fuel with
  | zero => intro buf st h; omega
  | succ fuel ih =>
    intro buf st h
    cases buf with
    | nil => simp [writeAll]
    | cons c cs =>
      obtain ⟨n, hn, hs⟩ := hpos st.calls (c :: cs).length
      obtain ⟨m, rfl⟩ : ∃ m, n = m + 1 := ⟨n - 1, by omega⟩
      unfold writeAll
      simp only [hs]
      have hk : 1 ≤ min (m + 1) (c :: cs).length := by simp
      have hlen : (List.drop (min (m + 1) (c :: cs).length) (c :: cs)).length < fuel := by
        simp only [List.length_drop]; simp only [List.length_cons] at h hk ⊢; omega
      obtain ⟨h1, h2, h3⟩ := ih (List.drop (min (m + 1) (c :: cs).length) (c :: cs))
        { st with calls := st.calls + 1, collected := st.collected ++ List.take (min (m + 1) (c :: cs).length) (c :: cs) } hlen
      refine ⟨h1, ?_, h3⟩
      rw [h2]
      simp [List.append_assoc, List.take_append_drop]

/-- the whole output through a short-writing sink: success, and byte-identical to the concatenation of
    the chunks (what an unconstrained run collects) -/
theorem c15_short_complete (sink : Sink) (hpos : ∀ k len, ∃ n, 1 ≤ n ∧ sink k len = .accept n) (fuel : Nat) :
    ∀ (chunks : List (List Char × Handling)) (st : St), (∀ c ∈ chunks, c.1.length < fuel) →
      (run sink fuel chunks st).1 = Outcome.ok ∧
      (run sink fuel chunks st).2.collected = st.collected ++ (chunks.map (·.1)).flatten := by
  intro chunks
  induction chunks with
  | nil => intro st _; simp [run]
  | cons ch rest ih =>
    intro st hl
    obtain ⟨buf, h⟩ := ch
    obtain ⟨h1, h2, _⟩ := c15_writeAll_short sink hpos fuel buf st (hl (buf, h) List.mem_cons_self)
    unfold run
    cases hw : writeAll sink fuel buf st with
    | mk okb st' =>
      simp only [hw] at h1 h2
      subst h1
      simp only
      obtain ⟨i1, i2⟩ := ih st' (fun c hc => hl c (List.mem_cons_of_mem _ hc))
      refine ⟨i1, ?_⟩
      rw [i2, h2]
      simp [List.append_assoc]

/-- why `?` matters: with one site that unwraps, the same failing sink makes the run panic; with one that
    discards, it reports success although bytes were lost -/
example : (run (fun k _ => if k = 1 then .fail else .accept 100) 10
    [(['a'], .propagate), (['b'], .unwrap), (['c'], .propagate)] {}).1 = Outcome.panic := by decide
example : (run (fun k _ => if k = 1 then .fail else .accept 100) 10
    [(['a'], .propagate), (['b'], .discard), (['c'], .propagate)] {}).1 = Outcome.ok := by decide
example : (run (fun k _ => if k = 1 then .fail else .accept 100) 10
    [(['a'], .propagate), (['b'], .propagate), (['c'], .propagate)] {}).1 = Outcome.ioErr := by decide

end ZeepVerif.Props.C15
