/-
C19 — MultiRef<T> is transparent on the wire and for restriction checks.
`MultiRef`'s observable behaviour is *defined from* the forwarding table that the translator extracts
from helpers_content.rs; the theorem says that with the extracted table the wrapper is indistinguishable
from the bare value for every observation the property names.
-/
import ZeepVerif.Generated.Send

namespace ZeepVerif.Props.C19
open ZeepVerif.Generated

/-- what can be observed of a value of type `T` (abstractly): its serialisation, the attributes it
    contributes to the parent's start tag, its restriction verdict, its Debug text -/
structure Obs (α : Type) where
  ser : α
  attrs : α
  check : α
  debug : α
deriving DecidableEq, Repr

def shapeOf (tr m : String) : Option String :=
  (Send.multiRefForwarding.find? (fun r => r.1 == tr && r.2.1 == m)).map (·.2.2)

/-- the observation of `MultiRef<T>` wrapping a value with observation `o`: a method that forwards with
    the same arguments observes the inner value; any other shape is taken to diverge (`other`) -/
def wrapObs {α : Type} (other : α) (o : Obs α) : Obs α :=
  let fwd (tr m : String) (x : α) : α := if shapeOf tr m == some "forward-same-args" then x else other
  { ser := fwd "YaSerialize" "serialize" o.ser,
    attrs := fwd "YaSerialize" "serialize_attributes" o.attrs,
    check := fwd "CheckRestrictions" "check_restrictions" o.check,
    debug := fwd "std::fmt::Debug" "fmt" o.debug }

/-- the table as extracted: every observing method forwards to the inner value with the same arguments;
    deserialisation wraps the inner result; `clone` clones the `Arc` (shares), `default` wraps a default -/
theorem c19_table :
    shapeOf "YaSerialize" "serialize" = some "forward-same-args" ∧
    shapeOf "YaSerialize" "serialize_attributes" = some "forward-same-args" ∧
    shapeOf "CheckRestrictions" "check_restrictions" = some "forward-same-args" ∧
    shapeOf "std::fmt::Debug" "fmt" = some "forward-same-args" ∧
    shapeOf "YaDeserialize" "deserialize" = some "wrap-result-in-arc" ∧
    shapeOf "Clone" "clone" = some "clone-arc" ∧
    shapeOf "Default" "default" = some "default-arc" ∧
    shapeOf "-" "new" = some "wrap-arg-in-arc" := by decide

/-- transparency: for every value (every observation `o`, whatever a diverging method would show), the
    wrapped value is observed exactly like the bare one -/
theorem c19_transparent {α : Type} (other : α) (o : Obs α) : wrapObs other o = o := by
  obtain ⟨h1, h2, h3, h4, _⟩ := c19_table
  simp [wrapObs, h1, h2, h3, h4]

/-- deserialisation: `deserialize` is the inner deserialiser's result put into a fresh `Arc` — an equal
    value; a clone shares the allocation instead of copying the value -/
theorem c19_de_and_clone :
    shapeOf "YaDeserialize" "deserialize" = some "wrap-result-in-arc" ∧ shapeOf "Clone" "clone" = some "clone-arc" := by
  decide

/-- no method of the wrapper has an unrecognised body -/
theorem c19_no_other : Send.multiRefForwarding.all (fun r => r.2.2 != "other") = true := by decide

/-! non-vacuity: a table in which `serialize_attributes` returns its input unchanged is *not* transparent -/
example : (let fwd (s : String) (x : Nat) : Nat := if s == "forward-same-args" then x else 0
           ({ ser := fwd "forward-same-args" 5, attrs := fwd "other" 7, check := 1, debug := 2 } : Obs Nat)) ≠
          { ser := 5, attrs := 7, check := 1, debug := 2 } := by decide

end ZeepVerif.Props.C19
