/-
C09 for EVERY input: the prefix → namespace table is stable through the whole read.
Whatever a prefix (or the default namespace) denotes at some point of reading a file, it denotes the same namespace
in the document after any amount of further reading — members, forward references, nested particles, later
components, and every imported file to any depth (`file_keeps` of `Lemmas/KeepsFile`, instantiated with the relation
"bindings are kept"). No hypothesis on the XML trees, the file table, the import graph or the fuel.
-/
import ZeepVerif.Lemmas.KeepsFile
import ZeepVerif.Props.C09
import ZeepVerif.Props.C11Read

namespace ZeepVerif.Props.C09All
open ZeepVerif ZeepVerif.Model ZeepVerif.Lemmas.Keeps ZeepVerif.Lemmas.KeepsFile ZeepVerif.Props.C09

/-- every binding of `d0` is a binding of `d` -/
def KeepsBindings (d0 d : Doc) : Prop := ∀ p n, lookupNs d0 p = some n → lookupNs d p = some n

theorem switch_keeps_bindings (d : Doc) (ns p : String) (n : Ns) (h : lookupNs d p = some n) :
    lookupNs (d.switchToTargetNamespace ns) p = some n := by
  unfold Doc.switchToTargetNamespace
  split
  · exact h
  · unfold lookupNs at h ⊢
    split
    · next hp =>
      simp only [hp, if_true] at h
      cases hd : d.defaultNs with
      | none => simp [hd] at h
      | some u =>
        simp only [hd, Option.bind_some] at h ⊢
        exact find_append_some _ _ _ _ h
    · next hp => simpa [hp] using h

theorem keepsBindings_fileRel : FileRel KeepsBindings where
  inv d0 := {
    addRef := fun d a u h p n hp => c09_add_keeps_bindings d a u p n (h p n hp)
    addDefault := fun d u h p n hp => c09_default_keeps_bindings d u p n (h p n hp)
    switch := fun d ns h p n hp => switch_keeps_bindings d ns p n (h p n hp)
    push := fun d key h p n hp => by simpa [lookupNs] using h p n hp
    pop := fun d h p n hp => by simpa [lookupNs] using h p n hp }
  refl _ _ := fun _ _ h => h
  nodes d0 d x h _ _ := fun p n hp => by simpa [lookupNs] using h p n hp
  messages d0 d x h := fun p n hp => by simpa [lookupNs] using h p n hp
  ports d0 d x h := fun p n hp => by simpa [lookupNs] using h p n hp
  bindings d0 d x h := fun p n hp => by simpa [lookupNs] using h p n hp
  services d0 d x h := fun p n hp => by simpa [lookupNs] using h p n hp
  imported d0 d imp h _ := fun p n hp => c09_extend_keeps_bindings d imp p n (h p n hp)

/-- **reading a schema never rebinds a prefix**: if `p` denotes `n` in the document before `read_xsd` runs over a
    schema element, it denotes `n` in the document `read_xsd` returns — whatever the schema contains and imports -/
theorem c09_read_xsd_keeps_bindings (files : String → Option XFile) (file : XFile) (all : List (XNode × List XNode))
    (schema : XNode) (anc : List XNode) (d : Doc) (fuel : Nat) (st : RS) (d' : Doc) (st' : RS)
    (h : (readXsd files file all schema anc d fuel).run st = .ok (d', st')) (p : String) (n : Ns)
    (hp : lookupNs d p = some n) : lookupNs d' p = some n := by
  have ht := (file_keeps keepsBindings_fileRel files fuel).xsd file all schema anc d d (fun _ _ h => h)
  have := fm_run_of_triple _ _ (fun d' _ => KeepsBindings d d') ht st trivial
  rw [h] at this
  exact this p n hp

/-- the node-level reader (any component, any member, any forward reference) never rebinds a prefix either -/
theorem c09_try_from_node_keeps_bindings (node : XNode) (ctx : Ctx) (fuel : Nat) (d : Doc) (p : String) (n : Ns)
    (hp : lookupNs d p = some n) : lookupNs (runNM (tryFromNode node ctx fuel) d).2 p = some n :=
  ((block_keeps (keepsBindings_fileRel.inv d) fuel).tfn node ctx).run d (fun _ _ h => h) p n hp

/-- the declarations on the root element of a file: a prefix declared there for a namespace of the schema's own
    (not a well-known one) denotes a namespace with exactly that URI as soon as it is collected … -/
theorem collect_binds (nss : List (Option String × String)) (p u : String) :
    ∀ (d : Doc), (some p, u) ∈ nss → (∀ q v, (some q, v) ∈ nss → q = p → v = u) → p.isEmpty = false → u.isEmpty = false →
    Generated.Tables.wellKnownNamespaces.contains u = false → (lookupNs d p = none ∨ ∃ n, lookupNs d p = some n ∧ n.uri = u) →
    ∃ n, lookupNs (d.collectNamespaces nss) p = some n ∧ n.uri = u := by
  induction nss with
  | nil => intro d hm; cases hm
  | cons e rest ih =>
    intro d hm huniq hpe hue hwk hd
    have hsplit : d.collectNamespaces (e :: rest) = (d.collectNamespaces [e]).collectNamespaces rest := by
      simp [Doc.collectNamespaces]
    rw [hsplit]
    -- the state after the first declaration still satisfies the disjunction, and binds `p` when `e` declares it
    have step : ∀ d1 : Doc, d1 = d.collectNamespaces [e] →
        ((lookupNs d1 p = none ∧ e ≠ (some p, u)) ∨ ∃ n, lookupNs d1 p = some n ∧ n.uri = u) := by
      intro d1 hd1
      obtain ⟨e1, e2⟩ := e
      cases e1 with
      | none =>
        simp only [Doc.collectNamespaces, List.foldl_cons, List.foldl_nil] at hd1
        rcases hd with hn | ⟨n, hn, hu⟩
        · left
          refine ⟨?_, by simp⟩
          subst hd1
          unfold Doc.addDefaultNamespace
          split
          · exact hn
          · simpa [lookupNs, hpe] using hn
        · right; subst hd1; exact ⟨n, c09_default_keeps_bindings d e2 p n hn, hu⟩
      | some a =>
        simp only [Doc.collectNamespaces, List.foldl_cons, List.foldl_nil] at hd1
        rcases hd with hn | ⟨n, hn, hu⟩
        · by_cases hap : a = p
          · -- this is the declaration of `p`: by uniqueness its URI is `u`
            have he2 : e2 = u := huniq a e2 (by simp) hap
            subst hap he2
            right
            subst hd1
            unfold Doc.addNamespaceReference
            simp only [hpe, hue, Bool.or_self, Bool.false_eq_true, if_false, hwk, hn, Option.isSome_none]
            cases hf : d.namespaces.find? (fun ns => ns.uri == e2) with
            | some ex =>
              refine ⟨ex, ?_, by simpa using List.find?_some hf⟩
              simp [lookupNs, hpe, List.find?_append]
              have : d.lookup.find? (fun kv => kv.1 == a) = none := by
                simpa [lookupNs, hpe] using hn
              simp [this]
            | none =>
              refine ⟨mkNs e2 d.namespaces, ?_, rfl⟩
              simp [lookupNs, hpe, List.find?_append]
              have : d.lookup.find? (fun kv => kv.1 == a) = none := by
                simpa [lookupNs, hpe] using hn
              simp [this]
          · left
            refine ⟨?_, by simp; intro h; exact absurd h hap⟩
            subst hd1
            unfold Doc.addNamespaceReference
            split
            · exact hn
            · split
              · exact hn
              · split
                · exact hn
                · have hl : d.lookup.find? (fun kv => kv.1 == p) = none := by simpa [lookupNs, hpe] using hn
                  split <;> simp [lookupNs, hpe, List.find?_append, hl, hap]
        · right; subst hd1; exact ⟨n, c09_add_keeps_bindings d a e2 p n hn, hu⟩
    rcases step _ rfl with ⟨hn, hne⟩ | hbound
    · have hm' : (some p, u) ∈ rest := by
        rcases List.mem_cons.mp hm with h | h
        · exact absurd h.symm hne
        · exact h
      exact ih _ hm' (fun q v hq => huniq q v (List.mem_cons_of_mem _ hq)) hpe hue hwk (Or.inl hn)
    · -- already bound to `u`: the rest keeps it
      obtain ⟨n, hn, hu⟩ := hbound
      refine ⟨n, ?_, hu⟩
      have hk : DocInv (KeepsBindings (d.collectNamespaces [e])) := keepsBindings_fileRel.inv _
      exact hk.collect rest _ (fun _ _ h => h) p n hn

/-- **a prefix declared on the root element of the start file denotes, in the document `read_xml` returns, the namespace
    with the URI it was declared for** — whatever the file contains, whatever it imports (imported files may bind the same
    prefix to their own namespaces), to any depth, for every file table -/
theorem c09_root_prefix_denotes (files : List XFile) (start : String) (fuel : Nat) (d : Doc)
    (h : readXml files start (fuel + 1) = .ok d)
    (file : XFile) (tops : List XNode) (root : XNode)
    (hf : fileTable files start = some file) (ht : file.tops = some tops)
    (hroot : tops.find? (fun x => XNode.isElem x) = some root)
    (p u : String) (hm : (some p, u) ∈ root.nss) (huniq : ∀ e ∈ root.nss, e.1 = some p → e.2 = u)
    (hpe : p.isEmpty = false) (hue : u.isEmpty = false)
    (hwk : Generated.Tables.wellKnownNamespaces.contains u = false) :
    ∃ n, lookupNs d p = some n ∧ n.uri = u := by
  have ht' := int_from_root keepsBindings_fileRel (fun _ _ _ h => h) (fileTable files) start [] [] fuel
  have := fm_run_of_triple _ _ (fun d _ => ∃ file tops, fileTable files start = some file ∧ file.tops = some tops ∧
      KeepsBindings (rootDoc tops [] []) d) ht' { processed := [] } (by simp)
  simp only [readXml, readXmlOn] at h
  revert this
  cases hr : (readXmlInternal (fileTable files) start [] [] (fuel + 1)).run { processed := [] } with
  | error e => simp [hr] at h
  | ok r =>
    obtain ⟨d', st'⟩ := r
    simp only [hr] at h
    cases h
    intro ⟨file', tops', hf', ht'', hk⟩
    rw [hf] at hf'
    cases hf'
    rw [ht] at ht''
    cases ht''
    have hb : ∃ n, lookupNs (rootDoc tops [] []) p = some n ∧ n.uri = u := by
      unfold rootDoc
      rw [hroot]
      exact collect_binds root.nss p u (startDoc [] []) hm (fun q v hq hqp => huniq (some q, v) hq (by simp [hqp])) hpe hue hwk (Or.inl (by simp [lookupNs, hpe, startDoc]))
    obtain ⟨n, hn, hu⟩ := hb
    exact ⟨n, hk p n hn, hu⟩

/-! non-vacuity: in the cyclic file set of `Props/C11Read` both files bind `tns` — `a.xsd` to `urn:a`, `b.xsd` to `urn:b`;
    the reader returns a document (`c11_graph_read`) and in it `tns` denotes `urn:a`, the start file's binding -/
example : ∃ d n, readXml C11Read.demoCycle "a.xsd" = .ok d ∧ lookupNs d "tns" = some n ∧ n.uri = "urn:a" := by
  have hsome : (Lemmas.ReadGraph.readFileG (fileTable C11Read.demoCycle) 5 "a.xsd" [] [] { processed := [] }).isSome = true := by decide
  obtain ⟨r, hr⟩ := Option.isSome_iff_exists.mp hsome
  have hd := C11Read.c11_graph_read C11Read.demoCycle "a.xsd" 5 (by decide) r hr
  obtain ⟨n, hn, hu⟩ := c09_root_prefix_denotes C11Read.demoCycle "a.xsd" 9999 r.1 hd
    (C11Read.demoCycle.headD default) ((C11Read.demoCycle.headD default).tops.getD []) (((C11Read.demoCycle.headD default).tops.getD []).headD .other)
    rfl rfl rfl "tns" "urn:a" (by decide) (by decide) (by decide) (by decide) (by decide)
  exact ⟨r.1, n, hd, hn, hu⟩

end ZeepVerif.Props.C09All

namespace ZeepVerif.Props.C09All
open ZeepVerif ZeepVerif.Model ZeepVerif.Lemmas.Keeps Std.Do

set_option mvcgen.warning false

/-- what kind of component the reader makes of a node, by its tag -/
def KindOfTag (tag : String) (rt : RType) : Prop :=
  (tag = "complexType" ∨ tag = "group" → ∃ p, rt = .complex p) ∧ (tag = "simpleType" → ∃ p, rt = .simple p) ∧
  (tag = "element" → ∃ p, rt = .element p)

theorem tfn_kind (node : XNode) (ctx : Ctx) (fuel : Nat) :
    ⦃fun _ => ⌜True⌝⦄ tryFromNode node ctx fuel ⦃post⟨fun r _ => ⌜KindOfTag node.tag r.rtype⌝, fun _ _ => ⌜True⌝⟩⦄ := by
  have hT : DocInv (fun _ => True) := ⟨fun _ _ _ _ => trivial, fun _ _ _ => trivial, fun _ _ _ => trivial, fun _ _ _ => trivial, fun _ _ => trivial⟩
  cases fuel with
  | zero => mvcgen [tryFromNode]
  | succ fuel =>
    have hcpx := (block_keeps hT fuel).cpx
    have helt := (block_keeps hT fuel).elt
    have hsimple := fun node => keeps_simple hT node
    unfold Keeps at hcpx helt hsimple
    mvcgen [tryFromNode, switchToTargetNamespace, collectNamespacesOnNode, modifyDoc, getDoc, hcpx, helt, hsimple]
    all_goals simp_all [KindOfTag]

/-- **a lookup never returns a component of another kind**, every input: whatever `find_node_by_xml_name` returns for a
    type reference is a complex or simple type, for an element reference a global element — whether it was found among the
    components read so far or built from the XML tree for a forward reference -/
theorem fnd_kind (ctx : Ctx) (x : String) (ns : Option Ns) (k : Kind) (fuel : Nat) :
    ⦃fun _ => ⌜True⌝⦄ findNodeByXmlName ctx x ns k fuel
    ⦃post⟨fun r _ => ⌜∀ rn, r = some rn → k.matchesType rn.rtype = true⌝, fun _ _ => ⌜True⌝⟩⦄ := by
  cases fuel with
  | zero => mvcgen [findNodeByXmlName]
  | succ fuel =>
    have hok : ∀ n c, ⦃fun _ => ⌜True⌝⦄ okOrNone (tryFromNode n c fuel)
        ⦃post⟨fun r _ => ⌜∀ rn, r = some rn → KindOfTag n.tag rn.rtype⌝, fun _ _ => ⌜True⌝⟩⦄ := by
      intro n c
      have h := tfn_kind n c fuel
      mvcgen [okOrNone, h]
      all_goals simp_all
    mvcgen [findNodeByXmlName, modifyDoc, getDoc, hok]
    all_goals (try intros)
    case vc1.succ.h_1 =>
      rename_i _ nn hs rn hrn
      cases hrn
      unfold lookupRead at hs
      have := List.find?_some hs
      simp only [Bool.and_eq_true] at this
      exact this.2
    case vc2.succ.h_2.h_1 => rename_i h; cases h
    case vc3.succ.h_2.h_2.isTrue => rename_i h; cases h
    case vc4.succ.h_2.h_2.isFalse.success =>
      rename_i n anc hfind _ _ _ r _ hk _ rn hrn
      have hkind := hk rn hrn
      -- the component found has a tag of the wanted kind
      unfold findGlobalComponent at hfind
      have hp := List.find?_some hfind
      simp only at hp
      have htag : k.matchesTag n.tag = true := by
        cases hh : anc.head? with
        | none => simp [hh] at hp
        | some schema =>
          simp only [hh, Bool.and_eq_true] at hp
          exact hp.1.1.2
      cases k with
      | any => simp [Kind.matchesType]
      | type =>
        simp only [Kind.matchesTag, Bool.or_eq_true, beq_iff_eq] at htag
        rcases htag with ht | ht
        · obtain ⟨p, hp'⟩ := hkind.1 (Or.inl ht); simp [Kind.matchesType, hp']
        · obtain ⟨p, hp'⟩ := hkind.2.1 ht; simp [Kind.matchesType, hp']
      | element =>
        simp only [Kind.matchesTag, beq_iff_eq] at htag
        obtain ⟨p, hp'⟩ := hkind.2.2 htag
        simp [Kind.matchesType, hp']

/-- the same as a statement about a run -/
theorem c09_lookup_kind_all_inputs (ctx : Ctx) (x : String) (ns : Option Ns) (k : Kind) (fuel : Nat) (d : Doc) (rn : RNode)
    (h : (runNM (findNodeByXmlName ctx x ns k fuel) d).1 = .ok (some rn)) : k.matchesType rn.rtype = true := by
  have := run_of_triple _ _ _ _ (fnd_kind ctx x ns k fuel) d trivial
  revert this h
  rcases runNM (findNodeByXmlName ctx x ns k fuel) d with ⟨r, d'⟩
  cases r with
  | ok a => intro h hh; cases h; exact hh rn rfl
  | error e => intro h; cases h

end ZeepVerif.Props.C09All
