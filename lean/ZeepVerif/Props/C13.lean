/-
C13 — the library never panics, overflows or hangs, whatever the input.
-/
import ZeepVerif.Model.Emit
import ZeepVerif.Generated.Sites

namespace ZeepVerif.Props.C13
open ZeepVerif ZeepVerif.Model ZeepVerif.Generated

/-- the inventory of `unwrap`/`expect`/`panic!`/`assert!`/`unreachable!`/indexing sites in the non-test
    code: none is left in the library crate. The binary reports its failures by `expect` (exit status 101);
    those five sites are accounted for here and are the subject of C17, not of C13. -/
def accounted : List (String × String × String × String) := [
  ("zeep/src/main.rs", "main", "expect", "read_input_file_and_xsd_files_at_path (from_file_path)"),
  ("zeep/src/main.rs", "main", "expect", "XmlReader :: read_xml (& files)"),
  ("zeep/src/main.rs", "main", "expect", "document . write_xml (& mut generated)"),
  ("zeep/src/main.rs", "main", "expect", "File :: create (output_file)"),
  ("zeep/src/main.rs", "main", "expect", "file . write_all (& generated)")]

theorem c13_panic_sites_accounted : Sites.panicSites.all (fun s => accounted.contains s) = true := by decide

theorem c13_library_has_no_panic_site :
    Sites.panicSites.all (fun s => s.1 == "zeep/src/main.rs") = true := by decide

/-- the model's outcome space has no "panic": reading yields a document or one of the `WriterError`s
    (or runs out of the fuel that stands for stack and time), writing yields text or an error -/
theorem c13_outcomes (files : List XFile) (start : String) (fuel : Nat) :
    (∃ d, readXml files start fuel = .ok d) ∨ (∃ e, readXml files start fuel = .error e) := by
  cases h : readXml files start fuel with
  | ok d => exact Or.inl ⟨d, rfl⟩
  | error e => exact Or.inr ⟨e, rfl⟩

/- the flattening of a type's content is structurally recursive on the XML tree: it terminates on every
   tree, and the number of member sites is bounded by the size of the tree -/
mutual
theorem c13_sites_bounded (n : XNode) (anc : List XNode) : (memberSites n anc).length ≤ sizeOf n := by
  match n with
  | .elem t a nss tx kids =>
    have := c13_sitesList_bounded kids (XNode.elem t a nss tx kids :: anc)
    simp only [memberSites, XNode.elem.sizeOf_spec]
    omega
  | .other => simp [memberSites]
theorem c13_sitesList_bounded (ks : List XNode) (anc : List XNode) : (memberSitesList ks anc).length ≤ sizeOf ks := by
  match ks with
  | [] => simp [memberSitesList]
  | k :: ks =>
    have h1 := c13_sites_bounded k anc
    have h2 := c13_sitesList_bounded ks anc
    simp only [memberSitesList, List.length_append, List.cons.sizeOf_spec]
    have : (if (!k.isElem) = true then ([] : List (XNode × List XNode))
        else if (k.tag == "choice" || k.tag == "sequence") = true then memberSites k anc
        else if (k.tag == "attribute" || k.tag == "attributeGroup" || k.tag == "anyAttribute") = true then []
        else [(k, anc)]).length ≤ sizeOf k + 1 := by
      split
      · simp
      · split
        · omega
        · split <;> simp
    omega
end

end ZeepVerif.Props.C13
