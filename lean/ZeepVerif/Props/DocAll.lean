/-
Every component of every document the reader returns is the reading of a schema element (C02: nothing invented) — for EVERY input:
result specifications of elementFromNode / simpleFromNode / tryFromNode over CpxAll, lifted to read_xml through the file-level
invariant framework (Lemmas/KeepsFile: what is pushed was returned by try_from_node).
-/
import ZeepVerif.Props.CpxAll
import ZeepVerif.Lemmas.KeepsFile

namespace ZeepVerif.Props.DocAll
open ZeepVerif ZeepVerif.Model ZeepVerif.Lemmas.Keeps ZeepVerif.Lemmas.KeepsFile Std.Do ZeepVerif.Props.C02All ZeepVerif.Props.C08All
  ZeepVerif.Props.CpxAll

set_option mvcgen.warning false

/-- `p` is the reading of the complex type definition `node` (ancestors `anc`) -/
def ReadsAs (node : XNode) (anc : List XNode) (p : CProps) : Prop :=
  nameOf node anc = some p.xmlName ∧ FoldFrom (node :: anc) node.elemKids [] p.fields

theorem element_spec (node : XNode) (ctx : Ctx) (fuel : Nat) :
    ⦃fun _ => ⌜True⌝⦄ elementFromNode node ctx fuel
    ⦃post⟨fun r _ => ⌜node.attr? "name" = some r.xmlName ∧
        ∀ cp, r.etype = .complex cp → ∃ ct ∈ node.elemKids, ct.tag = "complexType" ∧ ReadsAs ct (node :: ctx.ancestors) cp⌝,
      fun _ _ => ⌜True⌝⟩⦄ := by
  cases fuel with
  | zero => mvcgen [elementFromNode]
  | succ fuel =>
    have hcpx := fun n c => complex_spec n c fuel
    mvcgen [elementFromNode, collectNamespacesOnNode, modifyDoc, getDoc, liftOpt, hcpx]
    case vc1.succ.h_1.h_1 => rename_i hx _ _; exact ⟨hx, fun cp h => by cases h⟩
    case vc2.succ.h_1.h_2.h_1.success =>
      rename_i hx _ ct hfind r _ hr
      refine ⟨hx, fun cp h => ?_⟩
      cases h
      have := List.find?_some hfind
      exact ⟨ct, List.mem_of_find?_eq_some hfind, by simpa using this, hr.1, foldFrom_of_foldOK hr.2⟩
    case vc3.succ.h_1.h_2.h_2 => rename_i hx _ _; exact ⟨hx, fun cp h => by cases h⟩

/-- what a component description must look like, given the element it was read from -/
def NodeOf (node : XNode) (anc : List XNode) (rt : RType) : Prop :=
  match rt with
  | .complex p => (node.tag = "complexType" ∨ node.tag = "group") ∧ ReadsAs node anc p
  | .simple p => node.tag = "simpleType" ∧ node.attr? "name" = some p.xmlName
  | .element p => node.tag = "element" ∧ node.attr? "name" = some p.xmlName ∧
      ∀ cp, p.etype = .complex cp → ∃ ct ∈ node.elemKids, ct.tag = "complexType" ∧ ReadsAs ct (node :: anc) cp
  | .ignore => node.tag ≠ "complexType" ∧ node.tag ≠ "group" ∧ node.tag ≠ "simpleType" ∧ node.tag ≠ "element"

theorem simple_name (node : XNode) :
    ⦃fun _ => ⌜True⌝⦄ simpleFromNode node ⦃post⟨fun r _ => ⌜node.attr? "name" = some r.xmlName⌝, fun _ _ => ⌜True⌝⟩⦄ := by
  mvcgen [simpleFromNode, collectNamespacesOnNode, modifyDoc, getDoc, liftOpt]
  case inv1 => exact post⟨fun _ _ => ⌜True⌝, fun _ _ => ⌜True⌝⟩
  all_goals simp_all

theorem tfn_spec (node : XNode) (ctx : Ctx) (fuel : Nat) :
    ⦃fun _ => ⌜True⌝⦄ tryFromNode node ctx fuel ⦃post⟨fun r _ => ⌜NodeOf node ctx.ancestors r.rtype⌝, fun _ _ => ⌜True⌝⟩⦄ := by
  cases fuel with
  | zero => mvcgen [tryFromNode]
  | succ fuel =>
    have hcpx := fun n c => complex_spec n c fuel
    have helt := fun n c => element_spec n c fuel
    have hsimple := fun n => simple_name n
    mvcgen [tryFromNode, switchToTargetNamespace, collectNamespacesOnNode, modifyDoc, getDoc, hcpx, helt, hsimple]
    case vc1.succ.isFalse.h_1.h_1.success => rename_i hx r _ h; exact ⟨Or.inl hx, h.1, foldFrom_of_foldOK h.2⟩
    case vc2.succ.isFalse.h_1.h_2.success => rename_i hx r _ h; exact ⟨Or.inr hx, h.1, foldFrom_of_foldOK h.2⟩
    case vc6.succ.isFalse.h_2.h_1.success => rename_i hx r _ h; exact ⟨Or.inl hx, h.1, foldFrom_of_foldOK h.2⟩
    case vc7.succ.isFalse.h_2.h_2.success => rename_i hx r _ h; exact ⟨Or.inr hx, h.1, foldFrom_of_foldOK h.2⟩
    case vc5.succ.isFalse.h_1.h_5 => rename_i t h1 h2 h3 h4 ht; subst ht; exact ⟨h1, h2, h3, h4⟩
    case vc10.succ.isFalse.h_2.h_5 => rename_i t h1 h2 h3 h4 ht; subst ht; exact ⟨h1, h2, h3, h4⟩

/-- every node the reader pushes was returned by `try_from_node` for some element -/
def AllRead (d : Doc) : Prop := ∀ n ∈ d.knownNodes ++ d.nodes, TfnResult n

def Rel (d0 d : Doc) : Prop := AllRead d0 → AllRead d

theorem rel_fileRel : FileRel Rel where
  inv d0 := {
    addRef := fun d a u h g => by
      have := h g
      unfold Doc.addNamespaceReference
      repeat' split
      all_goals exact this
    addDefault := fun d u h g => by
      have := h g
      unfold Doc.addDefaultNamespace
      repeat' split
      all_goals exact this
    switch := fun d ns h g => by
      have := h g
      unfold Doc.switchToTargetNamespace
      repeat' split
      all_goals exact this
    push := fun d key h g => h g
    pop := fun d h g => h g }
  refl _ _ := id
  nodes d0 d n h _ hn := fun g m hm => by
    have := h g
    simp only [List.mem_append, List.mem_singleton] at hm
    rcases hm with hm | hm | rfl
    · exact this m (by simp [hm])
    · exact this m (by simp [hm])
    · exact hn
  messages d0 d m h := h
  ports d0 d m h := h
  bindings d0 d m h := h
  services d0 d m h := h
  imported d0 d imp h himp := fun g m hm => by
    have hd := h g
    have hi := himp (by
      intro x hx
      simp only [startDoc, List.append_nil] at hx
      exact hd x hx)
    simp only [Doc.extend, List.mem_append] at hm
    rcases hm with hm | hm | hm
    · exact hd m (by simp [hm])
    · exact hd m (by simp [hm])
    · exact hi m (by simp [hm])

theorem tfnResult_nodeOf (n : RNode) (h : TfnResult n) : ∃ node anc, NodeOf node anc n.rtype := by
  obtain ⟨node, ctx, fuel, d, hr⟩ := h
  have := run_of_triple _ _ _ _ (tfn_spec node ctx fuel) d trivial
  revert this hr
  rcases runNM (tryFromNode node ctx fuel) d with ⟨res, d'⟩
  cases res with
  | ok a => intro hr hh; cases hr; exact ⟨node, ctx.ancestors, hh⟩
  | error e => intro hr; cases hr

/-- **Nothing is invented, every input.** For every file table, start file and fuel: every component of the document `read_xml`
    returns — from the start file or from any file reached through imports, at any depth — is the reading of some schema element:
    a struct description is the reading of a `complexType`/`group` element (`ReadsAs`: its name, and its member list the left fold of
    `StepOK` over that element's children — one field per member site of each content model, base members first for an extension, one
    field per attribute); a simple type is the reading of a `simpleType` element with that name; a global element that of an `element`
    with that name, its anonymous type the reading of one of its `complexType` children. -/
theorem c02_every_component_is_a_reading (files : List XFile) (start : String) (fuel : Nat) (d : Doc)
    (h : readXml files start fuel = .ok d) : ∀ n ∈ d.nodes, ∃ node anc, NodeOf node anc n.rtype := by
  have hr := readXml_rel rel_fileRel files start fuel d h
  have : AllRead d := hr (by intro n hn; simp [startDoc] at hn)
  intro n hn
  exact tfnResult_nodeOf n (this n (by simp [hn]))

/-- the same for the structs alone -/
theorem c02_every_struct_is_a_complex_type (files : List XFile) (start : String) (fuel : Nat) (d : Doc)
    (h : readXml files start fuel = .ok d) (n : RNode) (hn : n ∈ d.nodes) (p : CProps) (hp : n.rtype = .complex p) :
    ∃ node anc, (node.tag = "complexType" ∨ node.tag = "group") ∧ nameOf node anc = some p.xmlName ∧
      FoldFrom (node :: anc) node.elemKids [] p.fields := by
  obtain ⟨node, anc, hno⟩ := c02_every_component_is_a_reading files start fuel d h n hn
  rw [hp] at hno
  exact ⟨node, anc, hno.1, hno.2.1, hno.2.2⟩

/-! non-vacuity: the demonstration file of `C08Read` is read to a document with two structs -/
def demoCount : Option Nat :=
  match readXml [C08Read.demoFile] "demo.xsd" with
  | .ok d => some (d.nodes.filter (fun n => match n.rtype with | .complex _ => true | _ => false)).length
  | .error _ => none

example : demoCount = some 2 := by decide +kernel

end ZeepVerif.Props.DocAll
