/-
C02, reader side, as refinement statements about the monadic reader model (`Model.Reader`, the transcription of
reader.rs / node.rs / field.rs / structures/complex.rs that is byte-exact with the implementation on every input
of every run): what the reader returns, in closed form, for member declarations, content models, complex types
and whole schema files of the plain fragment (complex types without derivation whose members are named, typed
declarations — any nesting of sequences and choices, any occurrence attributes, any number of attributes, white
space and comments anywhere).
-/
import ZeepVerif.Lemmas.ReadField
import ZeepVerif.Lemmas.ReadFile
import ZeepVerif.Lemmas.ReadDecide
import ZeepVerif.Lemmas.ReadSpec
import ZeepVerif.Lemmas.WriteDoc

namespace ZeepVerif.Props.C02Read
open ZeepVerif ZeepVerif.Model ZeepVerif.Spec ZeepVerif.Lemmas.ReadField ZeepVerif.Lemmas.ReadFile ZeepVerif.Lemmas.ReadDecide
open ZeepVerif.Lemmas.ReadSpec ZeepVerif.Lemmas.Flatten ZeepVerif.Lemmas.ReadComp

/-- a member declaration becomes exactly one field: its XML name, the snake_case field name, the Rust type of its
    `type` attribute, the occurrence flags of `occurrence`, the current target namespace — and reading it does
    not change the document -/
theorem c02_member_read (node : XNode) (ctx : Ctx) (fuel : Nat) (d : Doc) (h : PlainDecl node) :
    runNM (fieldFromNode node ctx (fuel + 1)) d = (.ok (plainField d node ctx.ancestors), d) :=
  fieldFromNode_plain node ctx fuel d h

/-- a content model becomes one field per member site, in document order: nothing dropped, nothing added -/
theorem c02_content_read (node : XNode) (ctx : Ctx) (acc : List Field) (fuel : Nat) (d : Doc)
    (h : ∀ s ∈ memberSites node ctx.ancestors, PlainDecl s.1) :
    runNM (importSequence node ctx acc (fuel + 2)) d =
      (.ok (acc ++ (memberSites node ctx.ancestors).map (fun s => plainField d s.1 s.2)), d) :=
  importSequence_plain node ctx acc fuel d h

/-- a complex type without derivation becomes the struct description `complexStep` folds together: the fields of
    its `sequence`, then one per `attribute` -/
theorem c02_type_read (node : XNode) (ctx : Ctx) (fuel : Nat) (d : Doc) (name : String)
    (hname : node.attr? "name" = some name ∨
      (node.attr? "name" = none ∧ (ctx.ancestors.head?.bind fun x => x.attr? "name") = some name))
    (h : ∀ k ∈ node.elemKids, PlainChild (node :: ctx.ancestors) k) :
    runNM (complexFromNode node ctx (fuel + 3)) d =
      (.ok (node.elemKids.foldl (complexStep (d.collectNamespaces node.nss) name (node :: ctx.ancestors))
          { xmlName := name, fields := [], tns := (d.collectNamespaces node.nss).current, comment := parseComment node }),
       d.collectNamespaces node.nss) :=
  complexFromNode_plain node ctx fuel d name hname h

/-- **a whole schema file**: `read_xml` returns one node per `complexType`, in document order, each with exactly
    the fields of its content and attributes, all in the namespace state the root element alone determines.
    The hypothesis is a Boolean; the driver evaluates it on the parse of every generated input (`zvdrv plainfile`). -/
theorem c02_file_read (xf : XFile) (h : plainFileB xf = true) :
    ∃ schema tns, xf.tops = some [schema] ∧ readXml [xf] xf.name =
      .ok { fileDoc schema tns with
            nodes := (fileDoc schema tns).nodes ++ schema.kids.filterMap (nodeOf (fileDoc schema tns) [schema]) } :=
  readXml_of_plainFileB xf h

/-- **a whole schema file, all covered component kinds**: complex types without derivation, simple types by
    restriction, typed global elements and global elements with an anonymous complex type, in any number and
    order — `read_xml` returns one node per component in document order (`compOf` is the closed form of each);
    again the hypothesis is a Boolean evaluated on the real parse -/
theorem c02_file_read_general (xf : XFile) (h : coveredFileB xf = true) :
    ∃ schema tns, xf.tops = some [schema] ∧ readXml [xf] xf.name =
      .ok { fileDoc schema tns with
            nodes := (fileDoc schema tns).nodes ++ schema.kids.filterMap (nodeOfC (fileDoc schema tns) [schema]) } :=
  readXml_of_coveredFileB xf h

/-- **the whole generator in closed form** on the covered fragment (derivation from an earlier base included):
    `read_xml` followed by `write_xml` yields the fixed prelude, one module per target namespace holding the text
    of exactly the nodes of that namespace in document order, and the fixed runtime -/
theorem c02_generator_closed_form (xf : XFile) (h : ZeepVerif.Lemmas.ReadDecideX.coveredFileXB xf = true) :
    ∃ schema tns, xf.tops = some [schema] ∧
      let doc : Doc := { fileDoc schema tns with nodes := ZeepVerif.Lemmas.ReadExt.nodesFrom (fileDoc schema tns) [schema] schema.kids (fileDoc schema tns).nodes }
      (readXml [xf] xf.name).bind writeDoc =
        .ok ([Generated.Tables.headerText] ++ doc.targetNamespaces.flatMap (ZeepVerif.Lemmas.WriteDoc.moduleChunks doc) ++
          (doc.nodes.filter (fun n => n.inNs.isNone)).flatMap writeNode ++ [Generated.Tables.helpersText]) :=
  ZeepVerif.Lemmas.WriteDoc.generator_closed_form xf h

/-- in-scope declarations that were collected once add nothing when they are met again on a descendant -/
theorem c02_declarations_idempotent (d : Doc) (nss : List (Option String × String)) :
    (d.collectNamespaces nss).collectNamespaces nss = d.collectNamespaces nss :=
  collectNamespaces_again _ nss (collectNamespaces_absorbs d nss)

/-- **against the reference, at the level of the grammar**: take any complex type definition of the grammar
    without base and without element references (any nesting of sequences and choices, any occurrence values up
    to 2^64-1, any attributes), render it as the tree the generator sees (`ComplexDef.toX`; compared with the
    real parse of the printed text on every run); the struct description the reader returns for it has — member
    by member, in order — the XML name, the wrapper and the attribute flag of `Spec.Ref`: the flattened elements
    first, then the attributes; none dropped, none added -/
theorem c02_type_read_matches_reference (s : SchemaSet) (f : SchemaFile) (d : Doc) (cd : ComplexDef) (name : String)
    (nss : List (Option String × String)) (anc : List XNode)
    (hnr : ∀ o ps, cd.content = some (o, ps) → NoRefs ps ∧ PartsOk ps ∧ OccOk o) :
    (complexOf d (cd.toX f name nss) anc name).fields.map fieldObs =
      (Ref.ownElements s f cd ++ cd.attrs.map (Ref.attrField s)).map refObs :=
  complex_read_matches_ref s f d cd name nss anc hnr

/-- … and that tree meets the hypotheses of `c02_type_read` -/
theorem c02_rendered_type_is_plain (f : SchemaFile) (cd : ComplexDef) (name : String)
    (nss : List (Option String × String)) (anc : List XNode) (o : Occurs) (ps : List Particle)
    (hc : cd.content = some (o, ps)) (hn : NoRefs ps) :
    ∀ st ∈ memberSites (XNode.elem "sequence" (occAttrs o) [] none (particlesToX f ps)) (cd.toX f name nss :: anc), PlainDecl st.1 := by
  intro st hst
  simp only [memberSites] at hst
  exact (sites_particles f ps hn _).1 st hst

/-! non-vacuity: a file with two complex types (nested sequence and choice, an attribute) meets the hypothesis -/
def demoFile : XFile :=
  let nss : List (Option String × String) := [(some "xs", "http://www.w3.org/2001/XMLSchema"), (some "tns", "urn:demo")]
  let el (n t : String) (extra : List XAttr) : XNode := .elem "element" ([⟨"name", none, n⟩, ⟨"type", none, t⟩] ++ extra) nss none []
  { name := "demo.xsd", urls := [],
    tops := some [.elem "schema" [⟨"targetNamespace", none, "urn:demo"⟩] nss none [
      .other,
      .elem "complexType" [⟨"name", none, "Order"⟩] nss none [
        .other,
        .elem "sequence" [] nss none [.other, el "id" "xs:int" [], .other,
          .elem "choice" [⟨"minOccurs", none, "0"⟩] nss none [el "a" "xs:string" [], el "b" "tns:Item" [⟨"maxOccurs", none, "unbounded"⟩]], .other],
        .elem "attribute" [⟨"name", none, "code"⟩, ⟨"type", none, "xs:string"⟩] nss none [], .other],
      .other,
      .elem "complexType" [⟨"name", none, "Item"⟩] nss none [.elem "sequence" [] nss none [el "name" "xs:string" []]],
      .other]] }

example : plainFileB demoFile = true := by decide

def demoFile2 : XFile :=
  let nss : List (Option String × String) := [(some "xs", "http://www.w3.org/2001/XMLSchema"), (some "tns", "urn:demo")]
  let el (n t : String) : XNode := .elem "element" [⟨"name", none, n⟩, ⟨"type", none, t⟩] nss none []
  { name := "demo2.xsd", urls := [],
    tops := some [.elem "schema" [⟨"targetNamespace", none, "urn:demo"⟩] nss none [
      .elem "simpleType" [⟨"name", none, "Code"⟩] nss none [.elem "restriction" [⟨"base", none, "xs:string"⟩] nss none [
        .elem "maxLength" [⟨"value", none, "3"⟩] nss none []]],
      .other,
      .elem "element" [⟨"name", none, "order"⟩] nss none [.elem "complexType" [] nss none [.elem "sequence" [] nss none [el "code" "tns:Code"]]],
      .elem "element" [⟨"name", none, "alias"⟩, ⟨"type", none, "tns:Order"⟩] nss none [],
      .elem "complexType" [⟨"name", none, "Order"⟩] nss none [.elem "sequence" [] nss none [el "id" "xs:int"]]]] }

example : coveredFileB demoFile2 = true := by decide

end ZeepVerif.Props.C02Read
