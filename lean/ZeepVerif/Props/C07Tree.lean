/-
C07, first sentence, for every value tree: "checking fails iff some simple-typed value anywhere inside it — at any
nesting depth, inside optional or repeated members — violates a facet its type declares, including facets inherited
through derivation of one simple type from another".

`checkVal` interprets the check impls zeep emits, over the value model of `Ya` (a value is a tree: primitive text, or a
struct with one item list per member — one item for a required member, at most one for `Option`, any number for `Vec`):
  * a complex type (`write_complex_type`): every member, in order, with the incoming restrictions (`restrictions.clone()`),
    stopping at the first error (`c07_every_field_checked` is the writer-side fact);
  * a restricted simple type (`write_type_alias` + `write_check_restrictions_header`): the incoming restrictions on its
    `value` member when there are any, then its own;
  * `Option`/`Vec` (the translated helper impls): every item;
  * a primitive: the translated `check_String` (simple types carry their value as text; with no restrictions every
    carrier accepts every value, `c06_none`).
The theorem is by structural induction over the (mutually inductive) value tree, for every check program `C`.
-/
import ZeepVerif.Ya.Model
import ZeepVerif.Props.C07

namespace ZeepVerif.Props.C07Tree
open ZeepVerif ZeepVerif.Runtime ZeepVerif.Generated ZeepVerif.Ya

/-- what the emitted impl of a struct does -/
inductive CheckD where
  | complex
  | simple (own : Restr.Restrictions)

mutual
def checkVal (C : String → CheckD) : Val → Option Restr.Restrictions → Res
  | .prim s, inc => Restr.check_String inc s
  | .struct n fs, inc =>
    match C n with
    | .complex => checkFields C fs inc
    | .simple own =>
      match (if inc.isSome then checkFields C fs inc else Res.ok) with
      | .ok => checkFields C fs (some own)
      | e => e
def checkFields (C : String → CheckD) : FVals → Option Restr.Restrictions → Res
  | .nil, _ => .ok
  | .cons items rest, inc =>
    match checkItems C items inc with
    | .ok => checkFields C rest inc
    | e => e
def checkItems (C : String → CheckD) : Vals → Option Restr.Restrictions → Res
  | .nil, _ => .ok
  | .cons v rest, inc =>
    match checkVal C v inc with
    | .ok => checkItems C rest inc
    | e => e
end

mutual
/-- every text leaf of a value with the restriction sets of the simple types on the way down to it -/
def leaves (C : String → CheckD) : Val → List (String × List Restr.Restrictions)
  | .prim s => [(s, [])]
  | .struct n fs =>
    match C n with
    | .complex => leavesF C fs
    | .simple own => (leavesF C fs).map (fun p => (p.1, own :: p.2))
def leavesF (C : String → CheckD) : FVals → List (String × List Restr.Restrictions)
  | .nil => []
  | .cons items rest => leavesI C items ++ leavesF C rest
def leavesI (C : String → CheckD) : Vals → List (String × List Restr.Restrictions)
  | .nil => []
  | .cons v rest => leaves C v ++ leavesI C rest
end

/-- what a leaf has to pass: the incoming restriction set, if any, and every restriction set on its path -/
def LeafOk (inc : Option Restr.Restrictions) (p : String × List Restr.Restrictions) : Prop :=
  (∀ i, inc = some i → Restr.check_String (some i) p.1 = .ok) ∧ ∀ r ∈ p.2, Restr.check_String (some r) p.1 = .ok

theorem check_none (s : String) : Restr.check_String none s = .ok := by simp [Restr.check_String]

theorem seq_ok (a b : Res) : (match a with | .ok => b | e => e) = .ok ↔ a = .ok ∧ b = .ok := by
  cases a <;> simp

mutual
theorem checkVal_iff (C : String → CheckD) : ∀ (v : Val) (inc : Option Restr.Restrictions),
    checkVal C v inc = .ok ↔ ∀ p ∈ leaves C v, LeafOk inc p
  | .prim s, inc => by
    simp only [checkVal, leaves, List.mem_singleton, forall_eq, LeafOk, List.not_mem_nil, false_implies, implies_true, and_true]
    cases inc with
    | none => simp [check_none]
    | some i => simp
  | .struct n fs, inc => by
    simp only [checkVal, leaves]
    cases hC : C n with
    | complex => simpa using checkFields_iff C fs inc
    | simple own =>
      simp only []
      rw [seq_ok]
      have h2 := checkFields_iff C fs (some own)
      rw [h2]
      cases inc with
      | none =>
        simp only [Option.isSome_none, Bool.false_eq_true, if_false, true_and, List.mem_map, forall_exists_index, and_imp,
          forall_apply_eq_imp_iff₂]
        constructor
        · intro h p hp
          have := h p hp
          exact ⟨by simp, fun r hr => by
            rcases List.mem_cons.mp hr with rfl | hr
            · exact this.1 r rfl
            · exact this.2 r hr⟩
        · intro h p hp
          have := h p hp
          exact ⟨fun i hi => by cases hi; exact this.2 own List.mem_cons_self, fun r hr => this.2 r (List.mem_cons_of_mem _ hr)⟩
      | some i =>
        simp only [Option.isSome_some, if_true, List.mem_map, forall_exists_index, and_imp, forall_apply_eq_imp_iff₂]
        rw [checkFields_iff C fs (some i)]
        constructor
        · intro ⟨h1, h2⟩ p hp
          exact ⟨fun j hj => (h1 p hp).1 j hj, fun r hr => by
            rcases List.mem_cons.mp hr with rfl | hr
            · exact (h2 p hp).1 r rfl
            · exact (h1 p hp).2 r hr⟩
        · intro h
          exact ⟨fun p hp => ⟨(h p hp).1, fun r hr => (h p hp).2 r (List.mem_cons_of_mem _ hr)⟩,
                 fun p hp => ⟨fun j hj => by cases hj; exact (h p hp).2 own List.mem_cons_self, fun r hr => (h p hp).2 r (List.mem_cons_of_mem _ hr)⟩⟩
theorem checkFields_iff (C : String → CheckD) : ∀ (fs : FVals) (inc : Option Restr.Restrictions),
    checkFields C fs inc = .ok ↔ ∀ p ∈ leavesF C fs, LeafOk inc p
  | .nil, inc => by simp [checkFields, leavesF]
  | .cons items rest, inc => by
    simp only [checkFields, leavesF, List.mem_append]
    rw [seq_ok, checkItems_iff C items inc, checkFields_iff C rest inc]
    constructor
    · intro ⟨h1, h2⟩ p hp
      rcases hp with hp | hp
      · exact h1 p hp
      · exact h2 p hp
    · intro h
      exact ⟨fun p hp => h p (Or.inl hp), fun p hp => h p (Or.inr hp)⟩
theorem checkItems_iff (C : String → CheckD) : ∀ (vs : Vals) (inc : Option Restr.Restrictions),
    checkItems C vs inc = .ok ↔ ∀ p ∈ leavesI C vs, LeafOk inc p
  | .nil, inc => by simp [checkItems, leavesI]
  | .cons v rest, inc => by
    simp only [checkItems, leavesI, List.mem_append]
    rw [seq_ok, checkVal_iff C v inc, checkItems_iff C rest inc]
    constructor
    · intro ⟨h1, h2⟩ p hp
      rcases hp with hp | hp
      · exact h1 p hp
      · exact h2 p hp
    · intro h
      exact ⟨fun p hp => h p (Or.inl hp), fun p hp => h p (Or.inr hp)⟩
end

/-- **facets are enforced at every depth**: checking a value tree from the top (no incoming restrictions) succeeds exactly when
    every text leaf — whatever structs, optional and repeated members lie above it — satisfies, under XSD semantics, the facets
    of every restricted simple type on its path (the type's own facets and those of every type it is derived from) -/
theorem c07_enforced_at_every_depth (C : String → CheckD) (v : Val)
    (hfit : ∀ p ∈ leaves C v, ∀ n, lexInt p.1 = some n → inRange "i128" n) :
    checkVal C v none = .ok ↔ ∀ p ∈ leaves C v, ∀ r ∈ p.2, (C06.facetsOf r).satString p.1 := by
  rw [checkVal_iff]
  constructor
  · intro h p hp r hr
    have := (h p hp).2 r hr
    exact (C06.c06_string (some r) p.1 (hfit p hp)).mp this r rfl
  · intro h p hp
    refine ⟨by simp, fun r hr => ?_⟩
    exact (C06.c06_string (some r) p.1 (hfit p hp)).mpr (fun r' e => by cases e; exact h p hp r hr)

/-! non-vacuity: an order with a repeated line whose quantity is a `Tiny` (maxLength 2, derived from `Small`, minLength 1)
    nested two structs deep: "abc" in the second line is found -/
def demoC : String → CheckD
  | "Tiny" => .simple { max_length := some 2 }
  | "Small" => .simple { min_length := some 1 }
  | _ => .complex

def demoLine (q : String) : Val :=
  .struct "Line" (.cons (.cons (.struct "Tiny" (.cons (.cons (.struct "Small" (.cons (.cons (.prim q) .nil) .nil)) .nil) .nil)) .nil) .nil)

example : checkVal demoC (.struct "Order" (.cons (.cons (demoLine "ab") (.cons (demoLine "abc") .nil)) .nil)) none ≠ .ok := by decide
example : checkVal demoC (.struct "Order" (.cons (.cons (demoLine "ab") (.cons (demoLine "a") .nil)) .nil)) none = .ok := by decide

end ZeepVerif.Props.C07Tree
