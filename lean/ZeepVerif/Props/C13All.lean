/-
C13 (and the termination clause of C11) for EVERY file table: the reader model never exhausts its fuel — i.e. the
recursive descent over imports, forward references and nested particles always ends, with a document or with one of
zeep's own errors — and the depth of the recursion is bounded linearly in the size of the input:
  * import level: at most one `read_xml_internal` per file name on the stack (three call levels each), for every import
    graph — chains, diamonds, self imports, cycles;
  * node level: the forward-reference fallback re-enters `RustNode::try_from_node` only for a key that is not already
    being resolved; the keys are determined by the file's global components, so at most `6 · #elements` of them exist
    and seven call levels separate two re-entries.
Hypothesis `TableOK` (decidable form `tableOKB`, evaluated on the real parse by the checks): every `schema` element with
element children carries a `targetNamespace`, and the file has fewer than ~2.3 million elements (the node-level budget is
a constant of the model). Together with the outcome-class correspondence (child process: returned / panicked / killed /
timed out) this is the model-side half of "never overflows the stack or loops".
-/
import ZeepVerif.Lemmas.DepthFile
import ZeepVerif.Props.C11Read

namespace ZeepVerif.Props.C13All
open ZeepVerif ZeepVerif.Model ZeepVerif.Lemmas.Depth ZeepVerif.Lemmas.DepthFile

/-- **the reader terminates on every file set**: any files meeting the decidable hypothesis, any start file name, any import
    graph: with a budget of three per file the model returns a document or a `WriterError`, never `outOfFuel` -/
theorem c13_reader_terminates (fs : List XFile) (start : String) (fuel : Nat) (hT : tableOKB fs = true)
    (hf : 3 * fs.length + 3 ≤ fuel) :
    (∃ d, readXml fs start fuel = .ok d) ∨ (∃ e, readXml fs start fuel = .error e ∧ e ≠ Err.outOfFuel) := by
  have h := readXml_never_out_of_fuel fs start fuel (tableOKB_sound fs hT) hf
  cases hr : readXml fs start fuel with
  | ok d => exact Or.inl ⟨d, rfl⟩
  | error e => exact Or.inr ⟨e, rfl, fun he => h (by rw [hr, he])⟩

/-- the model's default budget (10000) covers every file set of up to 3332 files -/
theorem c13_default_budget (fs : List XFile) (start : String) (hT : tableOKB fs = true) (hn : fs.length ≤ 3332) :
    readXml fs start ≠ .error .outOfFuel :=
  readXml_never_out_of_fuel fs start 10000 (tableOKB_sound fs hT) (by omega)

/-- node level, any tree: reading any component with the model's node budget keeps the `resolving` stack and does not
    run out of fuel — whatever the component refers to (forward references, reference cycles, nested particles) -/
theorem c13_component_read_bounded (all : List (XNode × List XNode)) (h : elemsOKB all = true) (node : XNode) (ctx : Ctx)
    (hc : ctx.allElems = all) (d : Doc) (hd : d.resolving = []) :
    (runNM (tryFromNode node ctx nodeFuel) d).2.resolving = [] ∧
    (runNM (tryFromNode node ctx nodeFuel) d).1 ≠ .error .outOfFuel :=
  bounded_run _ (bounded_tfn all (elemsOKB_sound all h) node ctx hc) d hd

/-- the recursion depth is linear in the input: the key space of a file has at most six keys per element -/
theorem c13_depth_linear (all : List (XNode × List XNode)) : (keySpace all).length ≤ 6 * all.length :=
  keySpace_length all

/-! non-vacuity: the cyclic file set of `Props/C11Read` (a.xsd ⇄ b.xsd, b.xsd imports itself) meets the hypothesis -/
example : tableOKB C11Read.demoCycle = true := by decide
example : readXml C11Read.demoCycle "a.xsd" ≠ .error .outOfFuel := c13_default_budget _ _ (by decide) (by decide)

end ZeepVerif.Props.C13All
