/-
Seeded, type-directed generator of `Spec.SchemaSet` inhabitants (mostly well-formed by construction),
used by the correspondence check and the property oracles. Every random choice comes from one LCG state.
-/
import ZeepVerif.Spec.Grammar

namespace ZeepVerif.Spec.Gen
open ZeepVerif.Spec ZeepVerif.Inflector

structure G where
  seed : Nat
  /-- draw names from a handful of words only, so that local names are reused across namespaces and
      across kinds (type, element, local element, attribute): the C09 stream -/
  smallPool : Bool := false
  /-- WSDL messages may keep parts that are bound neither as body nor as header (accepted by the tool,
      outside the subset the C05 oracle speaks about; used by the determinism check) -/
  multiBody : Bool := false
  /-- PascalCase images already used for type-like items, per namespace -/
  usedTypes : List (Nat × String) := []
deriving Inhabited

abbrev M := StateM G

def next : M Nat := do
  let g ← get
  let s := (g.seed * 6364136223846793005 + 1442695040888963407) % 18446744073709551616
  set { g with seed := s }
  pure (s / 4294967296)

def below (n : Nat) : M Nat := do
  if n == 0 then pure 0 else pure ((← next) % n)

def chance (num den : Nat) : M Bool := do pure ((← below den) < num)

def pick {α : Type} [Inhabited α] (xs : List α) : M α := do
  let i ← below xs.length
  pure (xs.getD i default)

/-- the adversarial URI pool of C10: equal last segments, equal three-letter abbreviations, trailing
    slash, dots, dashes, digits, URNs -/
def uriPool : List String := [
  "http://example.com/v1/types", "http://example.com/v2/types", "http://example.org/types",
  "http://example.com/schemas/typ", "http://example.com/typology", "http://example.com/messages",
  "http://example.com/mes", "urn:example:types", "urn:types", "http://example.com/a.b.c",
  "http://example.com/data-types", "http://example.com/x-types", "http://example.com/2024/types/",
  "http://example.com/2", "http://example.com/123abc", "http://example.com/svc/", "https://example.com/Types",
  "http://example.com/TYPES", "http://example.com/ty", "http://example.com/t", "http://example.com/common",
  "http://example.com/core/com", "http://tempuri.org/", "http://example.com/ns#frag", "http://example.com/q?x=1",
  "http://example.com/svc", "http://example.com/2024/types", "http://example.com/Schemas/Typ", "http://example.com/api/Types"]

def words : List String := [
  "item", "order", "user name", "http request", "id", "type", "self", "value", "data 2", "x", "address line",
  "match", "async", "crate", "super", "struct", "body", "header", "envelope", "string", "result", "option",
  "vec", "box", "rc", "error", "client", "location", "abstract", "yield", "try", "gen", "where", "loop",
  "customer", "amount", "currency code", "line items", "ref", "in", "as", "dyn", "final", "override", "priv",
  "static", "true", "false", "unsafe", "use", "while", "mod", "move", "mut", "pub", "let", "impl", "if", "fn",
  "for", "extern", "enum", "else", "continue", "const", "break", "await", "become", "do", "macro", "return",
  "trait", "typeof", "unsized", "virtual", "status", "count", "name", "code", "note", "price", "qty"]

def capitalize (w : String) : String :=
  match w.toList with
  | [] => ""
  | c :: cs => String.ofList (toUpperA c :: cs)

/-- one of the case styles: camel, Pascal, snake, kebab, dotted, UPPER -/
def styled (w : String) (style : Nat) : String :=
  let parts := w.splitOn " "
  match style % 6 with
  | 0 => match parts with
    | [] => ""
    | p :: ps => p ++ String.join (ps.map capitalize)
  | 1 => String.join (parts.map capitalize)
  | 2 => "_".intercalate parts
  | 3 => "-".intercalate parts
  | 4 => ".".intercalate parts
  | _ => String.ofList (("_".intercalate parts).toList.map toUpperA)

/-- PascalCase names that the fixed prelude of every generated file already uses (std prelude types and
    traits, the imported `Rc`/`Read`/`Write`, the derive names): a component of that name shadows them and
    the file no longer compiles. Outside `NamesSeparated`; exercised by a dedicated stream (known finding). -/
def rustPrimNames : List String := ["String", "Vec", "Option", "Box", "Rc", "Self", "Result", "Default", "Debug", "Clone", "Some",
  "None", "Ok", "Err", "Read", "Write", "Send", "Sync", "Sized", "Drop", "Fn", "Iterator", "Into", "From", "ToString", "YaSerialize", "YaDeserialize"]

/-- a fresh type-like name in namespace `ns`: its PascalCase image is new there (NamesSeparated) and is
    not a name the prelude of every generated file already uses -/
def collideWords : List String := ["item", "order", "user name", "type", "data 2", "status", "int", "date", "long", "boolean", "code", "country code"]

def pickWord : M String := do
  if (← get).smallPool then pick collideWords else pick words

partial def freshTypeName (ns : Nat) : M String := do
  let w ← pickWord
  let st ← below 6
  let n := styled w st
  let n ← if (← chance 1 4) then pure (n ++ toString (← below 9)) else pure n
  let p := Ref.typeName n
  let g ← get
  if p.isEmpty || !(isLowerA (p.front) || isUpperA (p.front)) || g.usedTypes.contains (ns, p) || rustPrimNames.contains p
     || p == "Envelope" || p == "Header" || p == "Body" then freshTypeName ns
  else do
    set { g with usedTypes := (ns, p) :: g.usedTypes }
    pure n

/-- member names: distinct snake_case images within one struct -/
partial def freshMemberName (used : List String) : M String := do
  let w ← pickWord
  let n := styled w (← below 6)
  let n ← if (← chance 1 5) then pure (n ++ toString (← below 9)) else pure n
  let sn := Ref.fieldName n
  if sn.isEmpty || used.contains sn || !(isLowerA n.front || isUpperA n.front) then freshMemberName used else pure n

def genOccurs : M Occurs := do
  let min ← if (← chance 1 3) then pure 0 else pure 1
  let r ← below 10
  let max := if r < 6 then some 1 else if r < 8 then some (2 + r) else none
  pure { min := min, max := max }

def stringBuiltins : List String := ["string", "normalizedString", "anyURI", "language", "hexBinary", "date", "dateTime", "time", "duration", "base64Binary"]
def intBuiltins : List String := ["byte", "short", "int", "integer", "long", "unsignedByte", "unsignedShort", "unsignedInt", "unsignedLong", "negativeInteger", "nonNegativeInteger", "nonPositiveInteger", "positiveInteger"]
def otherBuiltins : List String := ["float", "double", "decimal", "boolean"]
def allBuiltins : List String := stringBuiltins ++ intBuiltins ++ otherBuiltins

/-- a planned named item, known before any definition is generated so that references can point
    forward as well as backward -/
structure Planned where
  ns : Nat
  name : String
  kind : String     -- "complex" | "simple" | "elemAnon" | "elemTyped"
  rank : Nat
deriving Repr, Inhabited

structure Plan where
  items : List Planned
  /-- `mayLookup i j`: file/namespace `i` may use a `ref=`/`base=` (lookup) reference into `j` -/
  lookupOk : Nat → Nat → Bool
  /-- `mayType i j`: `i` imports `j` (or i = j): `type=` references allowed -/
  typeOk : Nat → Nat → Bool

def genFacets (isInt : Bool) : M SFacets := do
  let asChild ← chance 2 3
  let style ← below 6
  let plus := style == 0
  let pad := style == 1
  if isInt then
    let lo ← below 20
    let span ← below 30
    let mi ← if (← chance 1 2) then pure (some (Int.ofNat lo - 5)) else pure none
    let ma ← if (← chance 1 2) then pure (some (Int.ofNat (lo + span) - 5)) else pure none
    let me ← if mi.isNone && (← chance 1 3) then pure (some (Int.ofNat lo - 6)) else pure none
    let mx ← if ma.isNone && (← chance 1 3) then pure (some (Int.ofNat (lo + span))) else pure none
    pure { minInclusive := mi, maxInclusive := ma, minExclusive := me, maxExclusive := mx, asChild := asChild, plus := plus, pad := pad }
  else
    let r ← below 4
    let len ← if r == 0 then pure (some (← below 5)) else pure none
    let minl ← if r == 1 || r == 2 then pure (some (← below 3)) else pure none
    let maxl ← if r == 2 then pure (some (3 + (← below 5))) else pure none
    let enums ← if r == 3 then do
        let k ← below 4
        let mut es : List String := []
        for _ in [0:k+1] do
          es := es ++ [styled (← pick words) (← below 6)]
        pure es
      else pure []
    pure { length := len, minLength := minl, maxLength := maxl, enumeration := enums, asChild := asChild, plus := plus, pad := pad }

/-- a type for a member of a type of rank `rank` in namespace `ns`; `repeating` lifts the rank limit -/
def genMemberType (p : Plan) (ns rank : Nat) (repeating : Bool) (simpleOnly : Bool) : M TypeRef := do
  let cands := p.items.filter fun it =>
    p.typeOk ns it.ns && (it.kind == "simple" || (!simpleOnly && it.kind == "complex" && (repeating || it.rank < rank)))
  if cands.isEmpty || (← chance 1 2) then
    pure (.builtin (← pick allBuiltins))
  else
    let it ← pick cands
    pure (.named it.ns it.name)

partial def genParticles (p : Plan) (ns rank : Nat) (depth : Nat) (rep : Bool) (used : List String) (n : Nat) :
    M (List Particle × List String) := do
  let mut out : List Particle := []
  let mut used := used
  for _ in [0:n] do
    let r ← below 20
    if r < 2 && depth < 2 then
      let o ← genOccurs
      let k ← below 3
      let (ps, u) ← genParticles p ns rank (depth + 1) (rep || o.max != some 1) used (k + 1)
      used := u
      out := out ++ [if r == 0 then .seq o ps else .choice o ps]
    else if r == 19 && depth < 2 then
      -- a chain: a repeating group whose only member is a non-repeating group with a single plain member
      -- (the only way a member's repeatability comes from a particle that is not its direct parent and
      -- a repeated instance keeps its order)
      let outer : Occurs := { min := (← below 2), max := if (← chance 1 2) then none else some 3 }
      let inner : Occurs := { min := (← below 2), max := some 1 }
      let name ← freshMemberName used
      used := Ref.fieldName name :: used
      let t ← genMemberType p ns rank true false
      let leaf : Particle := .elem name t { min := (← below 2), max := some 1 }
      let innerP : Particle := if (← chance 1 2) then .seq inner [leaf] else .choice inner [leaf]
      out := out ++ [if (← chance 1 2) then .seq outer [innerP] else .choice outer [innerP]]
    else if r < 4 then
      -- element reference: only to elements of lower rank, in a namespace lookups may reach
      let cands := p.items.filter fun it => (it.kind == "elemAnon" || it.kind == "elemTyped") && it.rank < rank && p.lookupOk ns it.ns
      match cands with
      | [] => pure ()
      | _ =>
        let it ← pick cands
        let sn := Ref.fieldName it.name
        if !used.contains sn then
          used := sn :: used
          out := out ++ [.ref it.ns it.name (← genOccurs)]
    else
      let o ← genOccurs
      let name ← freshMemberName used
      used := Ref.fieldName name :: used
      let t ← genMemberType p ns rank (rep || o.max != some 1) false
      out := out ++ [.elem name t o]
  pure (out, used)

mutual
def retag (tag : String) : Particle → Particle
  | .elem nm t o => .elem (nm ++ tag) t o
  | .ref a b c => .ref a b c
  | .seq o ps => .seq o (retagList tag ps)
  | .choice o ps => .choice o (retagList tag ps)
def retagList (tag : String) : List Particle → List Particle
  | [] => []
  | p :: ps => retag tag p :: retagList tag ps
end

def genComplexDef (p : Plan) (it : Planned) (allowBase : Bool) : M ComplexDef := do
  -- base: a complex type of lower rank reachable by lookup
  let baseCands := p.items.filter fun b => b.kind == "complex" && b.rank < it.rank && p.lookupOk it.ns b.ns
  let base ← if allowBase && !baseCands.isEmpty && (← chance 1 3) then do
      let b ← pick baseCands
      pure (some (b.ns, b.name))
    else pure none
  -- inherited member names are not known here; keep own names disjoint from every name used by lower ranks
  -- by drawing from a per-type prefix when a base is present
  let n ← below 5
  let hasContent ← chance 5 6
  let (ps, used) ← if hasContent then genParticles p it.ns it.rank 0 false [] n else pure ([], [])
  let o ← if (← chance 1 5) then genOccurs else pure {}
  let na ← below 3
  let mut attrs : List AttrDecl := []
  let mut used := used
  for _ in [0:na] do
    let name ← freshMemberName used
    used := Ref.fieldName name :: used
    let t ← genMemberType p it.ns it.rank false true
    attrs := attrs ++ [{ name := name, ty := t, required := (← chance 1 3) }]
  let tag := if base.isSome then "R" ++ toString it.rank else ""
  pure { base := base, content := if hasContent then some (o, retagList tag ps) else none,
         attrs := attrs.map fun a => { a with name := a.name ++ tag } }

def docPool : List String := ["A documented type.", "first line\nsecond line", "  padded  ", "quotes \" and \\ backslash", "a*/b /* c", "tab\there",
  "carriage\rreturn inside a line", "windows\r\nline ends\r\n", "trailing backslash \\", "/// looks like a doc comment", "non-ascii ü → λ"]

/-- schema sets. `cyclic = false`: the import graph is a DAG plus self-imports, and lookup references
    (`ref=`, `base=`) may cross files along it. `cyclic = true`: any directed graph (mutual imports,
    cycles), and lookup references stay inside their file (only `type=` references cross files). -/
def genSchemaSet (cyclic : Bool) (forWsdl : Bool := false) : M SchemaSet := do
  let nNs := 1 + (← below 4)
  -- distinct URIs
  let mut uris : List String := []
  while uris.length < nNs do
    let u ← pick uriPool
    if !uris.contains u then uris := uris ++ [u]
  -- import edges; lookups only "downhill" (towards smaller index), so no reference needs a file that is still being read
  let mut edges : List (Nat × Nat) := []
  for i in [0:nNs] do
    for j in [0:nNs] do
      if i != j then
        if j < i then
          if (← chance 3 5) then edges := edges ++ [(i, j)]
        else if cyclic && (← chance 2 5) then edges := edges ++ [(i, j)]
      else if !(forWsdl && i + 1 == nNs) && (← chance 1 12) then edges := edges ++ [(i, i)]
  let start ← if cyclic then below nNs
    else if forWsdl then pure (nNs - 1)
    else pure (nNs - 1 - (← below (if nNs > 1 && (← chance 1 4) then 2 else 1)))
  -- silent imports: the importing file binds no prefix for that namespace (and so cannot refer into it)
  let mut silent : List (Nat × Nat) := []
  for e in edges do
    if e.1 != e.2 && (← chance 1 5) then silent := silent ++ [e]
  let typeOk := fun i j => i == j || (edges.contains (i, j) && !silent.contains (i, j))
  let lookupOk := fun i j => i == j || (!cyclic && j < i && edges.contains (i, j) && !silent.contains (i, j))
  -- plan the named items
  let mut items : List Planned := []
  let mut rank := 0
  for ns in [0:nNs] do
    let nSimple ← below 3
    let nComplex := 1 + (← below 4)
    let nElem ← below 3
    for _ in [0:nSimple] do
      items := items ++ [{ ns := ns, name := (← freshTypeName ns), kind := "simple", rank := rank }]
      rank := rank + 1
    for _ in [0:nComplex] do
      items := items ++ [{ ns := ns, name := (← freshTypeName ns), kind := "complex", rank := rank }]
      rank := rank + 1
    for _ in [0:nElem] do
      let anon ← chance 2 3
      items := items ++ [{ ns := ns, name := (← freshTypeName ns), kind := if anon then "elemAnon" else "elemTyped", rank := rank }]
      rank := rank + 1
  let plan : Plan := { items := items, lookupOk := lookupOk, typeOk := typeOk }
  -- definitions
  let mut files : List SchemaFile := []
  for ns in [0:nNs] do
    let mut comps : List Component := []
    for it in items.filter (·.ns == ns) do
      let doc ← if (← chance 1 4) then pure (some (← pick docPool)) else pure none
      match it.kind with
      | "simple" =>
        let lower := items.filter fun b => b.kind == "simple" && b.rank < it.rank && typeOk ns b.ns
        if !lower.isEmpty && (← chance 1 4) then
          let b ← pick lower
          comps := comps ++ [.simpleType it.name (.named b.ns b.name) (← genFacets (← chance 1 2)) doc]
        else
          let isInt ← chance 1 2
          let b ← pick (if isInt then intBuiltins else stringBuiltins)
          comps := comps ++ [.simpleType it.name (.builtin b) (← genFacets isInt) doc]
      | "complex" => comps := comps ++ [.complexType it.name (← genComplexDef plan it true) doc]
      | "elemAnon" => comps := comps ++ [.elementAnon it.name (← genComplexDef plan it true)]
      | _ =>
        -- typed global element: of a named complex type (an alias of a generated struct)
        let cands := items.filter fun b => b.kind == "complex" && typeOk ns b.ns
        match cands with
        | [] => comps := comps ++ [.elementAnon it.name {}]
        | _ =>
          let b ← pick cands
          comps := comps ++ [.elementTyped it.name (.named b.ns b.name)]
    -- declaration order is arbitrary (forward references)
    let mut shuffled : List Component := []
    for c in comps do
      let k ← below (shuffled.length + 1)
      shuffled := shuffled.take k ++ [c] ++ shuffled.drop k
    -- prefixes: own namespace as `tns` (every file uses the same prefix for a different URI), others `nK` or short
    -- style 3: the file's own namespace is its default namespace (no prefix is bound to it)
    let style ← below (if forWsdl && ns + 1 == nNs then 3 else 4)
    let mut prefixes : List (Nat × String) := [(ns, if style == 0 then "tns" else if style == 3 then "" else "p" ++ toString ns)]
    for j in [0:nNs] do
      if j != ns && typeOk ns j then
        prefixes := prefixes ++ [(j, if style == 2 then "q" ++ toString j else "p" ++ toString j)]
    let imports := (edges.filter (·.1 == ns)).map (·.2)
    files := files ++ [{ fileName := "f" ++ toString ns ++ ".xsd", tns := ns, prefixes := prefixes, imports := imports, comps := shuffled }]
  pure { uris := uris, files := files, start := start }

/-! ### the namespace / import / prefix-style family (`gentopo`)

Small schema sets that vary exactly what the namespace machinery depends on: 2–4 files whose URIs mostly
share one natural abbreviation; every import edge present or absent, bound to a prefix or *silent* (the
importer binds no prefix for it); each file's own namespace bound as `tns`, as `pK`, or as the default
namespace (references to own components are then unprefixed); and the *same local names* (`Base`, `Derived`,
`Far`, `Code`, `Item`) declared in every namespace with different members, so that a reference resolved in the
wrong namespace, or by name only, shows up as a different member list. Declaration order is shuffled
(forward references). -/

def topoUris : List String := [
  "http://example.com/v1/types", "http://example.com/v2/types", "http://example.org/types", "urn:example:types",
  "http://example.com/schemas/typ", "http://example.com/typology"]

def letterOf (i : Nat) : String := (["a", "b", "c", "d", "e"].getD i "z")

def genTopoSet : M SchemaSet := do
  let nNs := 2 + (← below 3)
  let colliding ← chance 3 4
  let mut uris : List String := []
  while uris.length < nNs do
    let u ← pick (if colliding then topoUris else uriPool)
    if !uris.contains u then uris := uris ++ [u]
  let mut edges : List (Nat × Nat) := []
  let mut silent : List (Nat × Nat) := []
  for i in [0:nNs] do
    for j in [0:nNs] do
      if j < i && (← chance 3 4) then
        edges := edges ++ [(i, j)]
        if (← chance 2 5) then silent := silent ++ [(i, j)]
  let visible := fun (i j : Nat) => i == j || (edges.contains (i, j) && !silent.contains (i, j))
  let str : TypeRef := .builtin "string"
  let mut files : List SchemaFile := []
  for ns in [0:nNs] do
    let L := letterOf ns
    let others := (List.range nNs).filter (fun j => j != ns && visible ns j)
    let base : Component := .complexType "Base"
      { content := some ({}, [.elem ("bx" ++ L) str {}, .elem ("by" ++ L) (.builtin "int") { min := 0 }]),
        attrs := [{ name := "at" ++ L, ty := str, required := false }] } none
    let derived : Component := .complexType "Derived"
      { base := some (ns, "Base"),
        content := some ({}, [.elem ("dv" ++ L) str {}, .elem ("cd" ++ L) (.named ns "Code") { min := 0 }] ++
          others.map (fun j => .elem ("us" ++ letterOf j) (.named j "Base") { min := 0 })) } none
    let far : List Component := match others with
      | j :: _ => [.complexType "Far" { base := some (j, "Base"), content := some ({}, [.elem ("fr" ++ L) str {}]),
                                        attrs := [{ name := "fa" ++ L, ty := .named j "Code", required := false }] } none]
      | [] => []
    let code : Component := .simpleType "Code" (.builtin "string") { maxLength := some (3 + ns) } none
    let item : Component := .elementAnon "Item"
      { content := some ({}, [.elem ("iv" ++ L) str {}] ++ others.map (fun j => .ref j "Item" { min := 0 })) }
    let alias : List Component := match others with
      | j :: _ => [.elementTyped "Other" (.named j "Derived")]
      | [] => [.elementTyped "Own" (.named ns "Derived")]
    let comps := [base, derived] ++ far ++ [code, item] ++ alias
    let mut shuffled : List Component := []
    for c in comps do
      let k ← below (shuffled.length + 1)
      shuffled := shuffled.take k ++ [c] ++ shuffled.drop k
    -- own namespace: `tns`, `pK`, the default namespace, or `tns` with XML Schema itself as the default namespace
    let style ← below 4
    let mut prefixes : List (Nat × String) := [(ns, if style == 0 || style == 3 then "tns" else if style == 1 then "p" ++ toString ns else "")]
    for j in others do
      prefixes := prefixes ++ [(j, if (← chance 1 3) then "q" ++ toString j else "p" ++ toString j)]
    -- a silent import may come before or after the bound ones
    let imps := (edges.filter (·.1 == ns)).map (·.2)
    let imps ← if (← chance 1 2) then pure imps.reverse else pure imps
    files := files ++ [{ fileName := "f" ++ toString ns ++ ".xsd", tns := ns, prefixes := prefixes, imports := imps, comps := shuffled,
                         xsdDefault := style == 3 }]
  -- a namespace spread over two files: a second file with the target namespace of file 0, imported next to it
  if nNs ≥ 2 && (← chance 1 3) then
    let k := files.length
    let part2 : SchemaFile := {
      fileName := "f0b.xsd", tns := 0, prefixes := [(0, "tns")], imports := [],
      comps := [.complexType "Region" { content := some ({}, [.elem "rga" str {}, .elem "rgz" (.named 0 "Zone") { min := 0 }]) } none,
                .simpleType "Zone" (.builtin "string") { minLength := some 1 } none] }
    let mut files' : List SchemaFile := []
    for (f, i) in files.zipIdx do
      if edges.contains (i, 0) && (← chance 2 3) then
        let imps ← if (← chance 1 2) then pure (f.imports ++ [k]) else pure (k :: f.imports)
        let extra : List Component := if visible i 0 then
            [.complexType "UsesRegion" { content := some ({}, [.elem ("ur" ++ letterOf i) (.named 0 "Region") {}]) } none]
          else []
        files' := files' ++ [{ f with imports := imps, comps := f.comps ++ extra }]
      else files' := files' ++ [f]
    files := files' ++ [part2]
  pure { uris := uris, files := files, start := nNs - 1 }

def runTopo (seed : Nat) : SchemaSet :=
  (genTopoSet.run { seed := seed * 2654435761 + 4242 }).1

/-- the plain fragment of `Props/C02Read`: one file; complex types without derivation whose members are named,
    typed declarations (builtins or the file's other complex types), nested sequences and choices, attributes -/
def genPlainSet : M SchemaSet := do
  let u ← pick uriPool
  let n := 1 + (← below 5)
  let mut items : List Planned := []
  for k in [0:n] do
    items := items ++ [{ ns := 0, name := (← freshTypeName 0), kind := "complex", rank := k }]
  let plan : Plan := { items := items, lookupOk := fun _ _ => false, typeOk := fun i j => i == j }
  let mut comps : List Component := []
  for it in items do
    let doc ← if (← chance 1 4) then pure (some (← pick docPool)) else pure none
    comps := comps ++ [.complexType it.name (← genComplexDef plan it false) doc]
  let style ← below 2
  pure { uris := [u], files := [{ fileName := "f0.xsd", tns := 0, prefixes := [(0, if style == 0 then "tns" else "p0")], imports := [], comps := comps }], start := 0 }

def runPlain (seed : Nat) : SchemaSet :=
  (genPlainSet.run { seed := seed * 2654435761 + 999 }).1

def urlPool : List (String × String) := [
  ("http://localhost:8080/svc", "http://localhost:8080/svc"), ("https://example.com/soap/endpoint", "https://example.com/soap/endpoint"),
  ("http://example.com", "http://example.com/"), ("http://EXAMPLE.com:80/a/../b", "http://example.com/b"),
  ("http://example.com/path?x=1&y=2", "http://example.com/path?x=1&y=2"), ("urn:example:action", "urn:example:action"),
  ("http://example.com/a b", "http://example.com/a%20b")]

/-- distinct operation / part names: distinct PascalCase and snake_case images -/
partial def freshOpName (usedP usedS : List String) : M String := do
  let w ← pickWord
  let n := styled w (← below 6)
  let n ← if (← chance 1 4) then pure (n ++ toString (← below 9)) else pure n
  let p := toPascalCase n
  let sn := Ref.fieldName n
  if p.isEmpty || !(isLowerA n.front || isUpperA n.front) || usedP.contains p || usedS.contains sn then freshOpName usedP usedS else pure n

/-- a document/literal WSDL around a schema set: the start file becomes the inline schema -/
def genWsdlSet : M SchemaSet := do
  let s ← genSchemaSet false true
  let some f := s.files[s.start]? | pure s
  let lookupOk := fun (j : Nat) => j == f.tns || (j < f.tns && f.imports.contains j && f.prefixes.any (·.1 == j))
  -- global elements the messages may refer to
  let elems : List (Nat × String) := s.files.flatMap fun g =>
    if !lookupOk g.tns then [] else g.comps.filterMap fun c => match c with
      | .elementAnon n _ => some (g.tns, n)
      | .elementTyped n _ => some (g.tns, n)
      | _ => none
  -- make sure there is at least one element in the WSDL's own namespace
  let extra ← freshTypeName f.tns
  let f' := { f with comps := f.comps ++ [.elementAnon extra { content := some ({}, [.elem "payload" (.builtin "string") {}]) }] }
  let elems := elems ++ [(f.tns, extra)]
  let nOps := 1 + (← below 4)
  let mut ops : List Operation := []
  let mut msgs : List Message := []
  let mut usedP : List String := []
  let mut usedS : List String := []
  for k in [0:nOps] do
    let opName ← freshOpName usedP usedS
    usedP := toPascalCase opName :: usedP
    usedS := Ref.fieldName opName :: usedS
    let mkDir (tag : String) : M (Message × BoundDir) := do
      let nH ← if (← chance 1 2) then pure 0 else below 4
      let mut parts : List Part := []
      let mut names : List String := []
      let mut snakes : List String := []
      for _ in [0:nH + 1] do
        let (ens, en) ← pick elems
        -- part name equal to the element name, or something else
        let pn ← if (← chance 1 2) && !snakes.contains (Ref.fieldName en) then pure en else freshOpName [] snakes
        if !snakes.contains (Ref.fieldName pn) then
          parts := parts ++ [{ name := pn, elemNs := ens, elemName := en }]
          names := names ++ [pn]
          snakes := Ref.fieldName pn :: snakes
      -- which part is the body: a random one; the others are headers
      let bi ← below parts.length
      let body := (parts.getD bi default).name
      let multi := (← get).multiBody
      let mut headers := names.filter (· != body)
      if multi then
        let mut hs : List String := []
        for h in headers do
          if (← chance 1 2) then hs := hs ++ [h]
        headers := hs
      let explicit ← if multi then chance 1 4 else chance 1 2
      let mname := opName ++ tag ++ toString k
      pure ({ name := mname, parts := parts }, { message := mname, bodyParts := if explicit then some body else none, headers := headers })
    let (mi, di) ← mkDir "In"
    msgs := msgs ++ [mi]
    let hasOut ← chance 3 4
    let out ← if hasOut then do
        let (mo, d) ← mkDir "Out"
        msgs := msgs ++ [mo]
        pure (some d)
      else pure none
    let action ← if (← chance 1 2) then pure (some (← pick urlPool)) else pure none
    ops := ops ++ [{ name := opName, soapAction := action, input := di, output := out }]
  let mut svc ← freshOpName [] []
  while rustPrimNames.contains (Ref.typeName svc) || (Ref.typeName svc).endsWith "Envelope" do
    svc ← freshOpName [] []
  let w : Wsdl := { fileName := "service.wsdl", schemaFile := s.start, messages := msgs, portType := svc ++ "PortType",
                    binding := svc ++ "Binding", ops := ops, service := svc, port := svc ++ "Port", address := (← pick urlPool) }
  pure { s with files := s.files.set s.start f', wsdl := some w }

def runWsdl (seed : Nat) (smallPool : Bool := false) (multiBody : Bool := false) : SchemaSet :=
  (genWsdlSet.run { seed := seed * 2654435761 + 777, smallPool := smallPool, multiBody := multiBody }).1

def run (seed : Nat) (cyclic : Bool := false) (smallPool : Bool := false) : SchemaSet :=
  ((genSchemaSet cyclic).run { seed := seed * 2654435761 + 12345, smallPool := smallPool }).1

end ZeepVerif.Spec.Gen
