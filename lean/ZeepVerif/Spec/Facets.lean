/-
XSD facet semantics (XML Schema Part 2, §4.3), written from the standard and from property C06's
statement — never from zeep's code. This is the specification side of C06/C07.
-/
import ZeepVerif.Runtime.Prelude

namespace ZeepVerif.Spec
open ZeepVerif.Runtime

/-- the supported constraining facets of a simple-type restriction -/
structure Facets where
  minInclusive : Option Int := none
  maxInclusive : Option Int := none
  minExclusive : Option Int := none
  maxExclusive : Option Int := none
  length : Option Int := none
  minLength : Option Int := none
  maxLength : Option Int := none
  enumeration : Option (List String) := none
deriving Repr, DecidableEq, Inhabited

/-- v ≥ minInclusive ∧ v ≤ maxInclusive ∧ v > minExclusive ∧ v < maxExclusive (absent facet = no constraint) -/
def Facets.satInt (f : Facets) (v : Int) : Prop :=
  (∀ m, f.minInclusive = some m → m ≤ v) ∧
  (∀ m, f.maxInclusive = some m → v ≤ m) ∧
  (∀ m, f.minExclusive = some m → m < v) ∧
  (∀ m, f.maxExclusive = some m → v < m)

def Facets.hasNumeric (f : Facets) : Prop :=
  f.minInclusive ≠ none ∨ f.maxInclusive ≠ none ∨ f.minExclusive ≠ none ∨ f.maxExclusive ≠ none

instance (f : Facets) : Decidable f.hasNumeric := by unfold Facets.hasNumeric; exact inferInstance

/- `lexInt` (value of the lexical form of an XSD integer: optional sign, one or more decimal digits;
   unbounded) lives in the runtime prelude: Rust's signed-integer `FromStr` grammar is the same. -/

/-- length facets count characters (code points); enumeration is membership; numeric facets on a
    string-carried value constrain the integer it denotes -/
def Facets.satString (f : Facets) (s : String) : Prop :=
  (∀ n, f.length = some n → Int.ofNat s.length = n) ∧
  (∀ n, f.minLength = some n → n ≤ Int.ofNat s.length) ∧
  (∀ n, f.maxLength = some n → Int.ofNat s.length ≤ n) ∧
  (∀ e, f.enumeration = some e → s ∈ e) ∧
  (f.hasNumeric → ∃ v, lexInt s = some v ∧ f.satInt v)

/-! Executable (Bool) versions, used by the driver as the property oracle; proved equal to the Props. -/

def optAll (o : Option Int) (p : Int → Bool) : Bool := match o with | some m => p m | none => true

def Facets.satIntB (f : Facets) (v : Int) : Bool :=
  optAll f.minInclusive (fun m => decide (m ≤ v)) && optAll f.maxInclusive (fun m => decide (v ≤ m)) &&
  optAll f.minExclusive (fun m => decide (m < v)) && optAll f.maxExclusive (fun m => decide (v < m))

theorem Facets.satIntB_iff (f : Facets) (v : Int) : f.satIntB v = true ↔ f.satInt v := by
  unfold Facets.satIntB Facets.satInt optAll
  cases f.minInclusive <;> cases f.maxInclusive <;> cases f.minExclusive <;> cases f.maxExclusive <;> simp <;> omega

def Facets.hasNumericB (f : Facets) : Bool :=
  f.minInclusive.isSome || f.maxInclusive.isSome || f.minExclusive.isSome || f.maxExclusive.isSome

def Facets.satStringB (f : Facets) (s : String) : Bool :=
  let n : Int := Int.ofNat s.length
  optAll f.length (fun m => decide (n = m)) && optAll f.minLength (fun m => decide (m ≤ n)) &&
  optAll f.maxLength (fun m => decide (n ≤ m)) &&
  (match f.enumeration with | some e => e.contains s | none => true) &&
  (if f.hasNumericB then (match lexInt s with | some v => f.satIntB v | none => false) else true)

theorem Facets.satStringB_iff (f : Facets) (s : String) : f.satStringB s = true ↔ f.satString s := by
  have hi := f.satIntB_iff
  have hn : f.hasNumericB = true ↔ f.hasNumeric := by
    unfold Facets.hasNumericB Facets.hasNumeric
    cases f.minInclusive <;> cases f.maxInclusive <;> cases f.minExclusive <;> cases f.maxExclusive <;> simp
  unfold Facets.satStringB Facets.satString optAll
  by_cases hnum : f.hasNumeric
  · have hb := hn.mpr hnum
    cases f.length <;> cases f.minLength <;> cases f.maxLength <;> cases f.enumeration <;>
      cases hl : lexInt s <;> simp [hb, hnum, hi] <;> grind
  · have hb : f.hasNumericB = false := by
      cases h : f.hasNumericB
      · rfl
      · exact absurd (hn.mp h) hnum
    cases f.length <;> cases f.minLength <;> cases f.maxLength <;> cases f.enumeration <;>
      simp [hb, hnum] <;> grind

end ZeepVerif.Spec
