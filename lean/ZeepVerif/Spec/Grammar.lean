/-
The supported schema subset (DESIGN.md §2) as a Lean type, its rendering to XML text, and the
*reference* elaboration `Ref.*` written from the property statements and the documented mappings
(DESIGN.md §2.3) — never from zeep's code. "All schema sets derivable from the grammar" is
`∀ s : SchemaSet, WF s → …`; the correspondence check's generator produces inhabitants of this type.
-/
import ZeepVerif.Inflector

namespace ZeepVerif.Spec
open ZeepVerif.Inflector

/-- `max = none` is `unbounded` -/
structure Occurs where
  min : Nat := 1
  max : Option Nat := some 1
deriving Repr, DecidableEq, Inhabited

/-- a reference to a type: one of the mapped builtins, or the named type `name` of namespace `ns`
    (an index into the schema set's URI list) -/
inductive TypeRef where
  | builtin (b : String)
  | named (ns : Nat) (name : String)
deriving Repr, DecidableEq, Inhabited

inductive Particle where
  | elem (name : String) (ty : TypeRef) (occ : Occurs)
  | ref (ns : Nat) (name : String) (occ : Occurs)
  | seq (occ : Occurs) (ps : List Particle)
  | choice (occ : Occurs) (ps : List Particle)
deriving Repr, Inhabited

structure AttrDecl where
  name : String
  ty : TypeRef
  required : Bool
deriving Repr, Inhabited

structure SFacets where
  minInclusive : Option Int := none
  maxInclusive : Option Int := none
  minExclusive : Option Int := none
  maxExclusive : Option Int := none
  length : Option Nat := none
  minLength : Option Nat := none
  maxLength : Option Nat := none
  enumeration : List String := []
  asChild : Bool := true        -- facet written as child element `<xs:f value=…/>` or as attribute
  plus : Bool := false          -- non-negative facet values are written with an explicit plus sign (`+5`)
  pad : Bool := false           -- numeric facet values are written with surrounding white space (` 5 `; whitespace-collapsed by XSD)
deriving Repr, Inhabited

structure ComplexDef where
  base : Option (Nat × String) := none            -- complexContent/extension base
  content : Option (Occurs × List Particle) := none  -- the top particle is a sequence
  attrs : List AttrDecl := []
deriving Repr, Inhabited

inductive Component where
  | complexType (name : String) (d : ComplexDef) (doc : Option String)
  | simpleType (name : String) (base : TypeRef) (facets : SFacets) (doc : Option String)
  | elementTyped (name : String) (ty : TypeRef)
  | elementAnon (name : String) (d : ComplexDef)
deriving Repr, Inhabited

def Component.name : Component → String
  | .complexType n .. => n
  | .simpleType n .. => n
  | .elementTyped n .. => n
  | .elementAnon n .. => n

structure SchemaFile where
  fileName : String
  tns : Nat
  /-- xmlns declarations on the root: namespace index ↦ prefix (own namespace and every referenced one) -/
  prefixes : List (Nat × String)
  /-- imported files (indices into `files`), in document order -/
  imports : List Nat
  comps : List Component
  /-- the XML Schema namespace is the file's default namespace: schema vocabulary and builtin type names are
      written without a prefix (`<element name="a" type="string"/>`); the own namespace then has a prefix -/
  xsdDefault : Bool := false
deriving Repr, Inhabited

structure Part where
  name : String
  elemNs : Nat
  elemName : String
deriving Repr, Inhabited

structure Message where
  name : String
  parts : List Part
deriving Repr, Inhabited

/-- one direction of a bound operation: explicit `parts` of the body (or none), header part names -/
structure BoundDir where
  message : String
  bodyParts : Option String
  headers : List String
deriving Repr, Inhabited

structure Operation where
  name : String
  soapAction : Option (String × String)     -- raw attribute text, its `reqwest::Url` Display
  input : BoundDir
  output : Option BoundDir
deriving Repr, Inhabited

/-- a document/literal WSDL; its inline schema is `files[schemaFile]` (target namespace = the WSDL's) -/
structure Wsdl where
  fileName : String
  schemaFile : Nat
  messages : List Message
  portType : String
  binding : String
  ops : List Operation
  service : String
  port : String
  address : String × String                  -- raw attribute text, its `reqwest::Url` Display
deriving Repr, Inhabited

structure SchemaSet where
  uris : List String
  files : List SchemaFile
  start : Nat
  wsdl : Option Wsdl := none
deriving Repr, Inhabited

/-! ### rendering to XML text -/

def xmlEsc (s : String) : String :=
  String.join (s.toList.map fun c =>
    if c == '&' then "&amp;" else if c == '<' then "&lt;" else if c == '>' then "&gt;"
    else if c == '"' then "&quot;" else if c == '\n' then "&#10;" else if c == '\r' then "&#13;"
    else if c == '\t' then "&#9;" else String.singleton c)

def xsNs : String := "http://www.w3.org/2001/XMLSchema"

def prefixOf (f : SchemaFile) (ns : Nat) : String :=
  ((f.prefixes.find? (fun p => p.1 == ns)).map (·.2)).getD ("ns" ++ toString ns)

/-- a reference to `n` of namespace `ns`: prefixed, or bare when the file binds that namespace as its
    default namespace (prefix `""`) -/
def qname (f : SchemaFile) (ns : Nat) (n : String) : String :=
  let p := prefixOf f ns
  if p.isEmpty then n else p ++ ":" ++ n

def renderTypeRef (f : SchemaFile) : TypeRef → String
  | .builtin b => if f.xsdDefault then b else "xs:" ++ b
  | .named ns n => qname f ns n

def renderOccurs (o : Occurs) : String :=
  (if o.min == 1 then "" else " minOccurs=\"" ++ toString o.min ++ "\"") ++
  (match o.max with
   | some 1 => ""
   | some n => " maxOccurs=\"" ++ toString n ++ "\""
   | none => " maxOccurs=\"unbounded\"")

mutual
def renderParticle (f : SchemaFile) (ind : String) : Particle → String
  | .elem n t o => ind ++ "<xs:element name=\"" ++ xmlEsc n ++ "\" type=\"" ++ renderTypeRef f t ++ "\"" ++ renderOccurs o ++ "/>\n"
  | .ref ns n o => ind ++ "<xs:element ref=\"" ++ qname f ns (xmlEsc n) ++ "\"" ++ renderOccurs o ++ "/>\n"
  | .seq o ps => ind ++ "<xs:sequence" ++ renderOccurs o ++ ">\n" ++ renderParticles f (ind ++ "  ") ps ++ ind ++ "</xs:sequence>\n"
  | .choice o ps => ind ++ "<xs:choice" ++ renderOccurs o ++ ">\n" ++ renderParticles f (ind ++ "  ") ps ++ ind ++ "</xs:choice>\n"
def renderParticles (f : SchemaFile) (ind : String) : List Particle → String
  | [] => ""
  | p :: ps => renderParticle f ind p ++ renderParticles f ind ps
end

def renderAttr (f : SchemaFile) (ind : String) (a : AttrDecl) : String :=
  ind ++ "<xs:attribute name=\"" ++ xmlEsc a.name ++ "\" type=\"" ++ renderTypeRef f a.ty ++ "\"" ++
    (if a.required then " use=\"required\"" else "") ++ "/>\n"

def renderDoc (ind : String) : Option String → String
  | some d => ind ++ "<xs:annotation><xs:documentation>" ++ xmlEsc d ++ "</xs:documentation></xs:annotation>\n"
  | none => ""

def renderContent (f : SchemaFile) (ind : String) (d : ComplexDef) : String :=
  (match d.content with
   | some (o, ps) => ind ++ "<xs:sequence" ++ renderOccurs o ++ ">\n" ++ renderParticles f (ind ++ "  ") ps ++ ind ++ "</xs:sequence>\n"
   | none => "") ++ String.join (d.attrs.map (renderAttr f ind))

def renderComplexBody (f : SchemaFile) (ind : String) (d : ComplexDef) : String :=
  match d.base with
  | some (ns, b) =>
    ind ++ "<xs:complexContent>\n" ++ ind ++ "  <xs:extension base=\"" ++ qname f ns (xmlEsc b) ++ "\">\n" ++
    renderContent f (ind ++ "    ") d ++ ind ++ "  </xs:extension>\n" ++ ind ++ "</xs:complexContent>\n"
  | none => renderContent f ind d

def renderFacets (fc : SFacets) : String × String :=
  let wrap (t : String) : String := if fc.pad then " " ++ t ++ " " else t
  let si (i : Int) : String := wrap (if fc.plus && i ≥ 0 then "+" ++ toString i else toString i)
  let sn (n : Nat) : String := wrap (if fc.plus then "+" ++ toString n else toString n)
  let nums : List (String × Option String) :=
    [("minInclusive", fc.minInclusive.map si), ("maxInclusive", fc.maxInclusive.map si),
     ("minExclusive", fc.minExclusive.map si), ("maxExclusive", fc.maxExclusive.map si),
     ("length", fc.length.map sn), ("minLength", fc.minLength.map sn),
     ("maxLength", fc.maxLength.map sn)]
  let present := nums.filterMap (fun (n, v) => v.map (fun v => (n, v)))
  let enums := String.join (fc.enumeration.map (fun e => "      <xs:enumeration value=\"" ++ xmlEsc e ++ "\"/>\n"))
  if fc.asChild then
    ("", String.join (present.map (fun (n, v) => "      <xs:" ++ n ++ " value=\"" ++ v ++ "\"/>\n")) ++ enums)
  else
    (String.join (present.map (fun (n, v) => " " ++ n ++ "=\"" ++ v ++ "\"")), enums)

def renderComponent (f : SchemaFile) : Component → String
  | .complexType n d doc =>
    "  <xs:complexType name=\"" ++ xmlEsc n ++ "\">\n" ++ renderDoc "    " doc ++ renderComplexBody f "    " d ++ "  </xs:complexType>\n"
  | .simpleType n base fc doc =>
    let (attrs, kids) := renderFacets fc
    "  <xs:simpleType name=\"" ++ xmlEsc n ++ "\">\n" ++ renderDoc "    " doc ++
    "    <xs:restriction base=\"" ++ renderTypeRef f base ++ "\"" ++ attrs ++ ">\n" ++ kids ++ "    </xs:restriction>\n  </xs:simpleType>\n"
  | .elementTyped n t => "  <xs:element name=\"" ++ xmlEsc n ++ "\" type=\"" ++ renderTypeRef f t ++ "\"/>\n"
  | .elementAnon n d =>
    "  <xs:element name=\"" ++ xmlEsc n ++ "\">\n    <xs:complexType>\n" ++ renderComplexBody f "      " d ++ "    </xs:complexType>\n  </xs:element>\n"

def uriOf (s : SchemaSet) (ns : Nat) : String := s.uris.getD ns ""

def renderImports (s : SchemaSet) (f : SchemaFile) : String :=
  String.join (f.imports.map fun j =>
    match s.files[j]? with
    | some g => "  <xs:import namespace=\"" ++ xmlEsc (uriOf s g.tns) ++ "\" schemaLocation=\"" ++ xmlEsc g.fileName ++ "\"/>\n"
    | none => "")

def renderSchemaOpen (s : SchemaSet) (f : SchemaFile) (ind : String) : String :=
  ind ++ "<xs:schema xmlns:xs=\"" ++ xsNs ++ "\"" ++
  String.join (f.prefixes.map fun (ns, p) => (if p.isEmpty then " xmlns" else " xmlns:" ++ p) ++ "=\"" ++ xmlEsc (uriOf s ns) ++ "\"") ++
  " targetNamespace=\"" ++ xmlEsc (uriOf s f.tns) ++ "\" elementFormDefault=\"qualified\" attributeFormDefault=\"unqualified\">\n"

/-- the same document with the XML Schema namespace as default namespace instead of bound to `xs` -/
def unprefixXs (t : String) : String :=
  ((t.replace "<xs:" "<").replace "</xs:" "</").replace "xmlns:xs=" "xmlns="

def renderFile (s : SchemaSet) (f : SchemaFile) : String :=
  let t := "<?xml version=\"1.0\" encoding=\"UTF-8\"?>\n" ++ renderSchemaOpen s f "" ++ renderImports s f ++
    String.join (f.comps.map (renderComponent f)) ++ "</xs:schema>\n"
  if f.xsdDefault then unprefixXs t else t

def renderBoundDir (tag : String) (d : BoundDir) : String :=
  "      <wsdl:" ++ tag ++ ">\n" ++
  String.join (d.headers.map fun h => "        <soap:header message=\"tns:" ++ xmlEsc d.message ++ "\" part=\"" ++ xmlEsc h ++ "\" use=\"literal\"/>\n") ++
  "        <soap:body" ++ (match d.bodyParts with | some p => " parts=\"" ++ xmlEsc p ++ "\"" | none => "") ++ " use=\"literal\"/>\n" ++
  "      </wsdl:" ++ tag ++ ">\n"

/-- the WSDL document; `tns` is bound to the WSDL's (= inline schema's) target namespace -/
def renderWsdl (s : SchemaSet) (w : Wsdl) : String :=
  match s.files[w.schemaFile]? with
  | none => ""
  | some f =>
    let uri := uriOf s f.tns
    "<?xml version=\"1.0\" encoding=\"UTF-8\"?>\n<wsdl:definitions xmlns:wsdl=\"http://schemas.xmlsoap.org/wsdl/\" xmlns:soap=\"http://schemas.xmlsoap.org/wsdl/soap/\" xmlns:xs=\"" ++ xsNs ++ "\" xmlns:tns=\"" ++ xmlEsc uri ++ "\"" ++
    String.join ((f.prefixes.filter (fun p => p.2 != "tns")).map fun (ns, p) => " xmlns:" ++ p ++ "=\"" ++ xmlEsc (uriOf s ns) ++ "\"") ++
    " targetNamespace=\"" ++ xmlEsc uri ++ "\" name=\"" ++ xmlEsc w.service ++ "\">\n  <wsdl:types>\n" ++
    renderSchemaOpen s f "    " ++ renderImports s f ++ String.join (f.comps.map (renderComponent f)) ++ "    </xs:schema>\n  </wsdl:types>\n" ++
    String.join (w.messages.map fun m => "  <wsdl:message name=\"" ++ xmlEsc m.name ++ "\">\n" ++
      String.join (m.parts.map fun p => "    <wsdl:part name=\"" ++ xmlEsc p.name ++ "\" element=\"" ++ prefixOf f p.elemNs ++ ":" ++ xmlEsc p.elemName ++ "\"/>\n") ++
      "  </wsdl:message>\n") ++
    "  <wsdl:portType name=\"" ++ xmlEsc w.portType ++ "\">\n" ++
    String.join (w.ops.map fun o => "    <wsdl:operation name=\"" ++ xmlEsc o.name ++ "\">\n      <wsdl:input message=\"tns:" ++ xmlEsc o.input.message ++ "\"/>\n" ++
      (match o.output with | some d => "      <wsdl:output message=\"tns:" ++ xmlEsc d.message ++ "\"/>\n" | none => "") ++ "    </wsdl:operation>\n") ++
    "  </wsdl:portType>\n  <wsdl:binding name=\"" ++ xmlEsc w.binding ++ "\" type=\"tns:" ++ xmlEsc w.portType ++ "\">\n    <soap:binding style=\"document\" transport=\"http://schemas.xmlsoap.org/soap/http\"/>\n" ++
    String.join (w.ops.map fun o => "    <wsdl:operation name=\"" ++ xmlEsc o.name ++ "\">\n" ++
      (match o.soapAction with | some (raw, _) => "      <soap:operation soapAction=\"" ++ xmlEsc raw ++ "\"/>\n" | none => "      <soap:operation soapAction=\"\"/>\n") ++
      renderBoundDir "input" o.input ++ (match o.output with | some d => renderBoundDir "output" d | none => "") ++ "    </wsdl:operation>\n") ++
    "  </wsdl:binding>\n  <wsdl:service name=\"" ++ xmlEsc w.service ++ "\">\n    <wsdl:port name=\"" ++ xmlEsc w.port ++ "\" binding=\"tns:" ++ xmlEsc w.binding ++ "\">\n      <soap:address location=\"" ++ xmlEsc w.address.1 ++ "\"/>\n    </wsdl:port>\n  </wsdl:service>\n</wsdl:definitions>\n"

/-! ### reference elaboration (DESIGN.md §2.3) -/

namespace Ref

/-- the documented builtin mapping (the 27 mapped builtins) -/
def builtinMap : List (String × String) := [
  ("byte", "i8"), ("short", "i16"), ("int", "i32"), ("integer", "i32"), ("negativeInteger", "i32"),
  ("nonNegativeInteger", "i32"), ("nonPositiveInteger", "i32"), ("positiveInteger", "i32"), ("long", "i64"),
  ("unsignedByte", "u8"), ("unsignedShort", "u16"), ("unsignedInt", "u32"), ("unsignedLong", "u64"),
  ("float", "f32"), ("double", "f64"), ("decimal", "f64"), ("boolean", "bool"), ("string", "String"),
  ("normalizedString", "String"), ("base64Binary", "String"), ("hexBinary", "String"), ("anyURI", "String"),
  ("date", "String"), ("dateTime", "String"), ("time", "String"), ("language", "String"), ("duration", "String")]

/-- Rust keywords of edition 2024 (strict and reserved); a snake_case member name that is one of them is
    made legal: raw identifier, or a trailing underscore for the three that cannot be raw -/
def keywords : List String := [
  "as", "break", "const", "continue", "crate", "else", "enum", "extern", "false", "fn", "for", "if", "impl", "in",
  "let", "loop", "match", "mod", "move", "mut", "pub", "ref", "return", "self", "static", "struct", "super",
  "trait", "true", "type", "unsafe", "use", "where", "while", "async", "await", "dyn",
  "abstract", "become", "box", "do", "final", "macro", "override", "priv", "typeof", "unsized", "virtual", "yield",
  "try", "gen"]

def fieldName (xmlName : String) : String :=
  let s := toSnakeCase xmlName
  if s == "crate" || s == "self" || s == "super" then s ++ "_"
  else if keywords.contains s then "r#" ++ s else s

def typeName (xmlName : String) : String :=
  let p := toPascalCase xmlName
  if p == "Self" then "Self_" else p

/-- a leaf type: a Rust primitive/String, or the struct generated for `(uri, Name)` -/
inductive Leaf where
  | prim (t : String)
  | gen (uri : String) (name : String)
deriving Repr, DecidableEq, Inhabited

def Leaf.render : Leaf → String
  | .prim t => t
  | .gen u n => "{" ++ u ++ "}" ++ n

structure RField where
  rustName : String
  wrapper : String        -- "T" | "Option" | "Vec"
  leaf : Leaf
  isAttr : Bool
  nsUri : Option String   -- namespace of the element on the wire (none for attributes)
  xmlName : String
deriving Repr, Inhabited

def leafOf (s : SchemaSet) : TypeRef → Leaf
  | .builtin b => .prim (((builtinMap.find? (fun kv => kv.1 == b)).map (·.2)).getD "String")
  | .named ns n => .gen (uriOf s ns) (typeName n)

def wrapperOf (optional repeats inChoice : Bool) : String :=
  if repeats then "Vec" else if optional || inChoice then "Option" else "T"

def _root_.ZeepVerif.Spec.Occurs.optional (o : Occurs) : Bool := o.min == 0
def _root_.ZeepVerif.Spec.Occurs.repeats (o : Occurs) : Bool := match o.max with | none => true | some n => n > 1

mutual
/-- members contributed by a particle; `opt`/`rep`/`ch` describe the enclosing particles -/
def flattenParticle (s : SchemaSet) (declUri : String) (opt rep ch : Bool) : Particle → List RField
  | .elem n t o =>
    [{ rustName := fieldName n, wrapper := wrapperOf (opt || o.optional) (rep || o.repeats) ch,
       leaf := leafOf s t, isAttr := false, nsUri := some declUri, xmlName := n }]
  | .ref ns n o =>
    [{ rustName := fieldName n, wrapper := wrapperOf (opt || o.optional) (rep || o.repeats) ch,
       leaf := .gen (uriOf s ns) (typeName n), isAttr := false, nsUri := some (uriOf s ns), xmlName := n }]
  | .seq o ps => flattenParticles s declUri (opt || o.optional) (rep || o.repeats) ch ps
  | .choice o ps => flattenParticles s declUri (opt || o.optional) (rep || o.repeats) true ps
def flattenParticles (s : SchemaSet) (declUri : String) (opt rep ch : Bool) : List Particle → List RField
  | [] => []
  | p :: ps => flattenParticle s declUri opt rep ch p ++ flattenParticles s declUri opt rep ch ps
end

def attrField (s : SchemaSet) (a : AttrDecl) : RField :=
  { rustName := fieldName a.name, wrapper := if a.required then "T" else "Option",
    leaf := leafOf s a.ty, isAttr := true, nsUri := none, xmlName := a.name }

/-- the named complex type `(ns, name)`: its definition and the file that declares it -/
def findComplex (s : SchemaSet) (ns : Nat) (name : String) : Option (SchemaFile × ComplexDef) :=
  s.files.findSome? fun f =>
    if f.tns != ns then none else
    f.comps.findSome? fun c => match c with
      | .complexType n d _ => if n == name then some (f, d) else none
      | _ => none

/-- the elements a complex definition declares itself, flattened, in declaration order -/
def ownElements (s : SchemaSet) (f : SchemaFile) (d : ComplexDef) : List RField :=
  match d.content with
  | some (o, ps) => flattenParticles s (uriOf s f.tns) o.optional o.repeats false ps
  | none => []

/-- base members first (in the base's order, keeping the namespace of the schema that declared them),
    then own elements, then own attributes; `fuel` bounds the derivation depth (acyclic by WF) -/
def members (s : SchemaSet) (f : SchemaFile) (d : ComplexDef) : Nat → List RField
  | 0 => []
  | fuel + 1 =>
    let baseMembers := match d.base with
      | some (ns, b) => match findComplex s ns b with
        | some (bf, bd) => members s bf bd fuel
        | none => []
      | none => []
    baseMembers ++ ownElements s f d ++ d.attrs.map (attrField s)

/-- files reachable from the start file through imports (each once) -/
def reachable (s : SchemaSet) : List Nat :=
  let rec go (fuel : Nat) (todo : List Nat) (seen : List Nat) : List Nat :=
    match fuel, todo with
    | 0, _ => seen
    | _, [] => seen
    | fuel + 1, i :: rest =>
      if seen.contains i then go fuel rest seen
      else match s.files[i]? with
        | some f => go fuel (f.imports ++ rest) (seen ++ [i])
        | none => go fuel rest seen
  go (s.files.length * s.files.length + s.files.length + 1) [s.start] []

/-- one observation line per fact, in the format `bin/zvlib` normalises the implementation's
    `zv obs` output to (modules and prefixes replaced by the namespace URI they stand for) -/
def structLines (s : SchemaSet) : List String :=
  (reachable s).flatMap fun i =>
    match s.files[i]? with
    | none => []
    | some f =>
      let uri := uriOf s f.tns
      f.comps.flatMap fun c =>
        let structOf (n : String) (d : ComplexDef) : List String :=
          let ms := members s f d (s.files.foldl (fun a g => a + g.comps.length) 1)
          (if d.base.isSome then ["DERIVED\t" ++ uri ++ "\t" ++ typeName n] else []) ++
          ("STRUCT\t" ++ uri ++ "\t" ++ typeName n ++ "\trename=" ++ n) ::
          ms.zipIdx.map fun (m, k) =>
            "FIELD\t" ++ uri ++ "\t" ++ typeName n ++ "\t" ++ toString k ++ "\t" ++ m.rustName ++ "\t" ++ m.wrapper ++ "\t" ++
            m.leaf.render ++ "\tattr=" ++ (if m.isAttr then "1" else "0") ++ "\tns=" ++ (m.nsUri.getD "-") ++ "\trename=" ++ m.xmlName
        match c with
        | .complexType n d _ => structOf n d
        | .elementAnon n d => structOf n d
        | .simpleType n base _ _ =>
          let leaf := leafOf s base
          -- a restriction of the same-named type of the *same* namespace would alias itself: not emitted
          if leaf == Leaf.gen uri (typeName n) || leaf == Leaf.prim (typeName n) then [] else
          let (kind, vleaf) := match leaf with
            | .prim _ => ("text", "String")
            | .gen .. => ("flatten", leaf.render)
          ["STRUCT\t" ++ uri ++ "\t" ++ typeName n ++ "\trename=" ++ n,
           "SIMPLE\t" ++ uri ++ "\t" ++ typeName n ++ "\t" ++ kind ++ "\t" ++ vleaf]
        | .elementTyped n t =>
          let leaf := leafOf s t
          if leaf == Leaf.gen uri (typeName n) || leaf == Leaf.prim (typeName n) then []
          else ["ALIAS\t" ++ uri ++ "\t" ++ typeName n ++ "\t" ++ leaf.render]

/-- the element a part refers to, as the struct generated for it -/
def partLeaf (s : SchemaSet) (p : Part) : String := (Leaf.gen (uriOf s p.elemNs) (typeName p.elemName)).render

/-- the part that is the body of one direction: the explicitly named one, else the only part that no
    header binds -/
def bodyPart (m : Message) (d : BoundDir) : Option Part :=
  match d.bodyParts with
  | some n => m.parts.find? (fun p => p.name == n)
  | none => m.parts.find? (fun p => !d.headers.contains p.name)

def soapenvNs : String := "http://schemas.xmlsoap.org/soap/envelope/"

/-- reference facts about the SOAP side (C05): one line per fact -/
def wsdlLines (s : SchemaSet) : List String :=
  match s.wsdl with
  | none => []
  | some w =>
    let envelope (op : Operation) (dir : String) (d : BoundDir) : List String :=
      match w.messages.find? (fun m => m.name == d.message) with
      | none => []
      | some m =>
        let env := typeName op.name ++ dir ++ "Envelope"
        (match bodyPart m d with
         | some p => ["ENVBODY\t" ++ env ++ "\t" ++ partLeaf s p ++ "\trename=" ++ p.elemName ++ "\tns=" ++ uriOf s p.elemNs]
         | none => []) ++
        d.headers.zipIdx.filterMap (fun (h, i) =>
          (m.parts.find? (fun p => p.name == h)).map fun p =>
            "ENVHEADER\t" ++ env ++ "\t" ++ toString i ++ "\t" ++ fieldName h ++ "\tOption\t" ++ partLeaf s p ++ "\trename=" ++ p.elemName ++ "\tns=" ++ uriOf s p.elemNs) ++
        ["ENVELOPE\t" ++ env ++ "\theader=" ++ (if d.headers.isEmpty then "0" else "1")]
    w.ops.flatMap (fun op =>
      envelope op "Input" op.input ++ (match op.output with | some d => envelope op "Output" d | none => []) ++
      ["METHOD\t" ++ typeName w.service ++ "\t" ++ fieldName op.name ++ "\targ=" ++ typeName op.name ++ "InputEnvelope\tret=" ++
        (match op.output with | some _ => typeName op.name ++ "OutputEnvelope" | none => "()")]) ++
    ["SERVICE\t" ++ typeName w.service ++ "\tlocation=" ++ w.address.2]

end Ref

end ZeepVerif.Spec
