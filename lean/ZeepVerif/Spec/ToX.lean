/-
Rendering of the grammar's particles as the XML trees the generator sees (`XNode`): what roxmltree
yields for the text printed by `Spec.renderParticle`, with a non-element (white space) node before each
child and after the last one. In-scope namespaces and element text are left empty here: the functions the
theorems are about (`memberSites`, `occurrence`) never look at them. The harness checks on every run that
the dump of the real parse equals this rendering modulo those two fields (`XNode.shape`).
-/
import ZeepVerif.Xml
import ZeepVerif.Spec.Grammar

namespace ZeepVerif.Spec
open ZeepVerif

def occAttrs (o : Occurs) : List XAttr :=
  (if o.min == 1 then [] else [⟨"minOccurs", none, toString o.min⟩]) ++
  (match o.max with
   | some 1 => []
   | some n => [⟨"maxOccurs", none, toString n⟩]
   | none => [⟨"maxOccurs", none, "unbounded"⟩])

mutual
def Particle.toX (f : SchemaFile) : Particle → XNode
  | .elem n t o => .elem "element" ([⟨"name", none, n⟩, ⟨"type", none, renderTypeRef f t⟩] ++ occAttrs o) [] none []
  | .ref ns n o => .elem "element" ([⟨"ref", none, qname f ns n⟩] ++ occAttrs o) [] none []
  | .seq o ps => .elem "sequence" (occAttrs o) [] none (particlesToX f ps)
  | .choice o ps => .elem "choice" (occAttrs o) [] none (particlesToX f ps)
def particlesToX (f : SchemaFile) : List Particle → List XNode
  | [] => [.other]
  | p :: ps => .other :: p.toX f :: particlesToX f ps
end

end ZeepVerif.Spec

namespace ZeepVerif.Spec
open ZeepVerif

/-! ### attributes and complex types without derivation -/

def AttrDecl.toX (f : SchemaFile) (a : AttrDecl) : XNode :=
  .elem "attribute" ([⟨"name", none, a.name⟩, ⟨"type", none, renderTypeRef f a.ty⟩] ++
    (if a.required then [⟨"use", none, "required"⟩] else [])) [] none []

def attrsToX (f : SchemaFile) : List AttrDecl → List XNode
  | [] => []
  | a :: as => a.toX f :: .other :: attrsToX f as

/-- `<xs:complexType name=…>` with its `sequence` (if any) and attributes, white space between the children
    (`renderComponent` for a definition without base and without documentation) -/
def ComplexDef.toX (f : SchemaFile) (name : String) (nss : List (Option String × String)) (cd : ComplexDef) : XNode :=
  .elem "complexType" [⟨"name", none, name⟩] nss none
    (.other :: (match cd.content with
      | some (o, ps) => [.elem "sequence" (occAttrs o) [] none (particlesToX f ps), .other]
      | none => []) ++ attrsToX f cd.attrs)

end ZeepVerif.Spec
