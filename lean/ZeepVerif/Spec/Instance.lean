/-
Independent generator of schema-valid (and, for C07, deliberately facet-violating) instance documents
for the types of a `Spec.SchemaSet`. Written from the schema model only (particles, occurrence,
attributes, facets) — not from anything zeep emits.
-/
import ZeepVerif.Spec.Gen
import ZeepVerif.Spec.Facets

namespace ZeepVerif.Spec.Inst
open ZeepVerif.Spec ZeepVerif.Spec.Gen ZeepVerif.Runtime

structure Ctx where
  s : SchemaSet
  /-- complex types being instantiated (outermost first): a type is not nested inside itself, because the
      XML runtime under test does not terminate on nested elements of a recursive type (excluded shape) -/
  visiting : List (Nat × String) := []
  /-- choose values that violate a facet wherever a restricted simple type occurs, with this probability (percent) -/
  violatePct : Nat := 0
deriving Inhabited

def findSimple (s : SchemaSet) (ns : Nat) (name : String) : Option (TypeRef × SFacets) :=
  s.files.findSome? fun f =>
    if f.tns != ns then none else
    f.comps.findSome? fun c => match c with
      | .simpleType n b fc _ => if n == name then some (b, fc) else none
      | _ => none

def findElement (s : SchemaSet) (ns : Nat) (name : String) : Option (SchemaFile × Component) :=
  s.files.findSome? fun f =>
    if f.tns != ns then none else
    f.comps.findSome? fun c => match c with
      | .elementAnon n _ => if n == name then some (f, c) else none
      | .elementTyped n _ => if n == name then some (f, c) else none
      | _ => none

def toFacets (fc : SFacets) : Facets :=
  { minInclusive := fc.minInclusive, maxInclusive := fc.maxInclusive, minExclusive := fc.minExclusive,
    maxExclusive := fc.maxExclusive, length := fc.length.map Int.ofNat, minLength := fc.minLength.map Int.ofNat,
    maxLength := fc.maxLength.map Int.ofNat, enumeration := if fc.enumeration.isEmpty then none else some fc.enumeration }

/-- the facets that apply to a value of the named simple type: its own and those of every base in its
    derivation chain (XSD: a derived type must satisfy both), and the builtin the chain ends in -/
def effectiveFacets (s : SchemaSet) : Nat → TypeRef → List Facets × String
  | 0, _ => ([], "string")
  | _, .builtin b => ([], b)
  | fuel + 1, .named ns n =>
    match findSimple s ns n with
    | some (base, fc) =>
      let (rest, b) := effectiveFacets s fuel base
      (toFacets fc :: rest, b)
    | none => ([], "string")

def isIntBuiltin (b : String) : Bool := intBuiltins.contains b

/-- does the lexical value satisfy every facet of the chain? (numeric facets constrain the integer the
    text denotes; length facets and enumerations the text itself) -/
def satisfiesAll (fs : List Facets) (text : String) : Bool := fs.all (fun f => f.satStringB text)

def intRangeOf (b : String) : Int × Int :=
  match b with
  | "byte" => (-128, 127) | "short" => (-32768, 32767) | "int" => (-2147483648, 2147483647)
  | "long" => (-9223372036854775808, 9223372036854775807)
  | "unsignedByte" => (0, 255) | "unsignedShort" => (0, 65535) | "unsignedInt" => (0, 4294967295)
  | "unsignedLong" => (0, 18446744073709551615)
  -- the unbounded integer family is carried in 32 bits by the documented mapping: stay inside (C04 width finding)
  | "negativeInteger" => (-2147483648, -1) | "nonPositiveInteger" => (-2147483648, 0)
  | "positiveInteger" => (1, 2147483647) | "nonNegativeInteger" => (0, 2147483647)
  | _ => (-2147483648, 2147483647)

def stringSamples : List String := ["a", "hello world", "x<y&z>q", "ünï日本", "quote\"s and 'apos'", "a]]>b", "tab\tin", "0", "-12", "CamelCase_9"]

def sampleBuiltin (b : String) : M String := do
  if isIntBuiltin b then
    let (lo, hi) := intRangeOf b
    pick [toString lo, toString hi, toString (if lo ≤ 0 ∧ 0 ≤ hi then (0 : Int) else lo), toString (if lo ≤ 7 ∧ 7 ≤ hi then (7 : Int) else hi),
          toString (if lo ≤ -1 then (-1 : Int) else hi)]
  else match b with
    | "boolean" => pick ["true", "false"]
    | "float" => pick ["1.5", "-2", "0", "1000", "0.25"]
    | "double" | "decimal" => pick ["1.5", "-2", "0", "1000000", "0.1", "-0.000125"]
    | "date" => pick ["2024-01-31", "1999-12-31Z"]
    | "dateTime" => pick ["2024-01-31T23:59:59Z", "2001-10-26T21:32:52+02:00"]
    | "time" => pick ["13:20:00", "00:00:00Z"]
    | "duration" => pick ["P1Y2M3DT4H5M6S", "PT0S"]
    | "anyURI" => pick ["http://example.com/a?b=c&d=e", "urn:x:y"]
    | "language" => pick ["en", "de-CH"]
    | "hexBinary" => pick ["0FB7", "00"]
    | "base64Binary" => pick ["SGVsbG8=", "AA=="]
    | _ => pick stringSamples

/-- a value of a simple type: candidates are drawn around every facet boundary, then filtered by the
    *specification's* facet evaluator for the wanted validity. Returns (text, valid) -/
def sampleSimple (ctx : Ctx) (t : TypeRef) : M (String × Bool) := do
  let (fs, b) := effectiveFacets ctx.s 8 t
  if fs.isEmpty then
    return (← sampleBuiltin b, true)
  let wantInvalid := (← below 100) < ctx.violatePct
  -- candidates
  let mut cands : List String := []
  for f in fs do
    for m in [f.minInclusive, f.maxInclusive, f.minExclusive, f.maxExclusive] do
      if let some v := m then cands := cands ++ [toString (v - 1), toString v, toString (v + 1)]
    for m in [f.length, f.minLength, f.maxLength] do
      if let some n := m then
        for d in [(-1 : Int), 0, 1] do
          let k := (n + d).toNat
          if n + d ≥ 1 then cands := cands ++ [String.ofList (List.replicate k 'x')]
    if let some e := f.enumeration then cands := cands ++ e ++ ["not-in-the-enumeration"]
  if isIntBuiltin b then cands := cands ++ ["0", "1", "5", "12", "-3", "100"]
  else cands := cands ++ ["a", "abc", "abcdefgh", "x y z"]
  -- a value must also be a legal literal of the builtin the chain ends in
  let legal (t : String) : Bool :=
    !t.isEmpty && (if isIntBuiltin b then
      match lexInt t with
      | some v => let (lo, hi) := intRangeOf b; decide (lo ≤ v) && decide (v ≤ hi) && !(t.startsWith "+")
      | none => false
    else t.trimAscii.toString == t)
  let cs := cands.filter legal
  let good := cs.filter (fun t => satisfiesAll fs t)
  let bad := cs.filter (fun t => !(satisfiesAll fs t))
  if wantInvalid && !bad.isEmpty then return (← pick bad, false)
  if !good.isEmpty then return (← pick good, true)
  if !bad.isEmpty then return (← pick bad, false)
  return (← sampleBuiltin b, satisfiesAll fs "a")

def prefixFor (style : Nat) (ns : Nat) : String :=
  match style % 3 with
  | 0 => "i" ++ toString ns
  | 1 => "ns" ++ toString (ns + 1)
  | _ => (["a", "bb", "c-c", "d.d"].getD ns "zz")

structure Out where
  xml : String := ""
  valid : Bool := true
deriving Inhabited

def Out.append (a b : Out) : Out := { xml := a.xml ++ b.xml, valid := a.valid && b.valid }

def countFor (o : Occurs) (fuel : Nat) : M Nat := do
  let lo := o.min
  let hi := match o.max with
    | none => 3
    | some n => min n 3
  -- out of depth: a repeatable member is left empty (a type that requires an occurrence of itself has no finite instance)
  if fuel == 0 then pure (if o.max != some 1 then 0 else lo)
  else if hi ≤ lo then pure lo
  else pure (lo + (← below (hi - lo + 1)))

mutual
/-- the particle flattens to exactly one member (a repetition of it keeps the document order) -/
def singleLeaf : Particle → Bool
  | .elem .. => true
  | .ref .. => true
  | .seq _ ps => singleLeafList ps
  | .choice _ ps => singleLeafList ps
def singleLeafList : List Particle → Bool
  | [p] => singleLeaf p
  | _ => false
end

mutual
/-- the content (attributes text, children) of an element of type `t` -/
partial def content (ctx : Ctx) (style : Nat) (t : TypeRef) (fuel : Nat) : M (String × Out) := do
  match t with
  | .builtin b =>
    let v ← sampleBuiltin b
    pure ("", { xml := xmlEsc v })
  | .named ns n =>
    match Ref.findComplex ctx.s ns n with
    | some (f, d) =>
      if ctx.visiting.contains (ns, n) then complexContent ctx style f d 0
      else complexContent { ctx with visiting := (ns, n) :: ctx.visiting } style f d fuel
    | none =>
      let (v, ok) ← sampleSimple ctx t
      pure ("", { xml := xmlEsc v, valid := ok })

/-- attributes and children of a complex definition: base first, then own elements; attributes of base and own -/
partial def complexContent (ctx : Ctx) (style : Nat) (f : SchemaFile) (d : ComplexDef) (fuel : Nat) : M (String × Out) := do
  let (battrs, bkids) ← match d.base with
    | some (bns, bn) =>
      match Ref.findComplex ctx.s bns bn with
      | some (bf, bd) => complexContent ctx style bf bd fuel
      | none => pure ("", {})
    | none => pure ("", ({} : Out))
  let kids ← match d.content with
    | some (o, ps) =>
      -- a repeating group with several members is instantiated once (see DESIGN: interleaving)
      let k ← if !(singleLeafList ps) then pure (if o.min == 0 && fuel == 0 then 0 else 1) else countFor o fuel
      let mut out : Out := {}
      for _ in [0:k] do
        out := out.append (← particles ctx style f ps fuel o.repeats)
      pure out
    | none => pure {}
  let mut attrs := battrs
  let mut valid := true
  for a in d.attrs do
    if a.required || (← chance 1 2) then
      let (v, ok) ← match a.ty with
        | .builtin b => do pure (← sampleBuiltin b, true)
        | t => sampleSimple ctx t
      attrs := attrs ++ " " ++ a.name ++ "=\"" ++ xmlEsc v ++ "\""
      valid := valid && ok
  pure (attrs, { xml := bkids.xml ++ kids.xml, valid := bkids.valid && kids.valid && valid })

partial def particles (ctx : Ctx) (style : Nat) (f : SchemaFile) (ps : List Particle) (fuel : Nat) (rep : Bool) : M Out := do
  let mut out : Out := {}
  for p in ps do
    out := out.append (← particle ctx style f p fuel rep)
  pure out

/-- `rep`: some enclosing particle may repeat — only then may the member's type reach its own type again
    (FiniteLayout), so out of depth such members are left out -/
partial def particle (ctx : Ctx) (style : Nat) (f : SchemaFile) (p : Particle) (fuel : Nat) (rep : Bool) : M Out := do
  match p with
  | .elem n t o =>
    let k ← if fuel == 0 && rep then pure 0 else countFor o fuel
    let pfx := prefixFor style f.tns
    let mut out : Out := {}
    for _ in [0:k] do
      let (attrs, c) ← content ctx style t (fuel - 1)
      out := out.append { xml := "<" ++ pfx ++ ":" ++ n ++ attrs ++ ">" ++ c.xml ++ "</" ++ pfx ++ ":" ++ n ++ ">", valid := c.valid }
    pure out
  | .ref ns n o =>
    let k ← if fuel == 0 && rep then pure 0 else countFor o fuel
    let mut out : Out := {}
    for _ in [0:k] do
      out := out.append (← globalElement ctx style ns n (fuel - 1))
    pure out
  | .seq o ps =>
    let k ← if !(singleLeafList ps) then pure (if o.min == 0 && (fuel == 0 || (← chance 1 3)) then 0 else 1) else countFor o fuel
    let mut out : Out := {}
    for _ in [0:k] do
      out := out.append (← particles ctx style f ps fuel (rep || o.repeats))
    pure out
  | .choice o ps =>
    if ps.isEmpty then pure {}
    else
      -- one branch is chosen; it is repeated only when it has a single member (order is then kept)
      let b ← pick ps
      let k ← if singleLeaf b && o.repeats && fuel != 0 then countFor o fuel
        else if o.min == 0 && (fuel == 0 || (← chance 1 3)) then pure 0 else pure 1
      let mut out : Out := {}
      for _ in [0:k] do
        out := out.append (← particle ctx style f b fuel (rep || o.repeats))
      pure out

/-- an instance of the global element `(ns, n)` -/
partial def globalElement (ctx : Ctx) (style : Nat) (ns : Nat) (n : String) (fuel : Nat) : M Out := do
  let pfx := prefixFor style ns
  match findElement ctx.s ns n with
  | some (f, .elementAnon _ d) =>
    let (attrs, c) ← if ctx.visiting.contains (ns, n) then complexContent ctx style f d 0
      else complexContent { ctx with visiting := (ns, n) :: ctx.visiting } style f d fuel
    pure { xml := "<" ++ pfx ++ ":" ++ n ++ attrs ++ ">" ++ c.xml ++ "</" ++ pfx ++ ":" ++ n ++ ">", valid := c.valid }
  | some (_, .elementTyped _ t) =>
    let (attrs, c) ← content ctx style t fuel
    pure { xml := "<" ++ pfx ++ ":" ++ n ++ attrs ++ ">" ++ c.xml ++ "</" ++ pfx ++ ":" ++ n ++ ">", valid := c.valid }
  | _ => pure { xml := "<" ++ pfx ++ ":" ++ n ++ "/>" }
end

def nsDecls (s : SchemaSet) (style : Nat) : String :=
  String.join ((List.range s.uris.length).map fun k => " xmlns:" ++ prefixFor style k ++ "=\"" ++ xmlEsc (uriOf s k) ++ "\"")

/-- insert the namespace declarations into the root start tag of a rendered element -/
def withDecls (xml : String) (decls : String) : String :=
  match xml.splitOn ">" with
  | [] => xml
  | first :: rest =>
    if first.endsWith "/" then (first.dropEnd 1).toString ++ decls ++ "/>" ++ ">".intercalate rest
    else first ++ decls ++ ">" ++ ">".intercalate rest

structure Instance where
  uri : String
  typeName : String
  valid : Bool
  xml : String

/-- instances of every struct-producing component of the reachable files -/
def instances (ctx : Ctx) (perType : Nat) : M (List Instance) := do
  let s := ctx.s
  let mut out : List Instance := []
  for i in Ref.reachable s do
    let some f := s.files[i]? | continue
    for c in f.comps do
      for k in [0:perType] do
        let style := k
        let pfx := prefixFor style f.tns
        let decls := nsDecls s style
        match c with
        | .complexType n d _ =>
          let (attrs, body) ← complexContent ctx style f d 3
          out := out ++ [{ uri := uriOf s f.tns, typeName := Ref.typeName n, valid := body.valid,
                           xml := "<" ++ pfx ++ ":" ++ n ++ decls ++ attrs ++ ">" ++ body.xml ++ "</" ++ pfx ++ ":" ++ n ++ ">" }]
        | .elementAnon n d =>
          let (attrs, body) ← complexContent ctx style f d 3
          out := out ++ [{ uri := uriOf s f.tns, typeName := Ref.typeName n, valid := body.valid,
                           xml := "<" ++ pfx ++ ":" ++ n ++ decls ++ attrs ++ ">" ++ body.xml ++ "</" ++ pfx ++ ":" ++ n ++ ">" }]
        | .simpleType n _ _ _ =>
          let (v, ok) ← sampleSimple ctx (.named f.tns n)
          out := out ++ [{ uri := uriOf s f.tns, typeName := Ref.typeName n, valid := ok,
                           xml := "<" ++ pfx ++ ":" ++ n ++ decls ++ ">" ++ xmlEsc v ++ "</" ++ pfx ++ ":" ++ n ++ ">" }]
        | _ => pure ()
  pure out

end ZeepVerif.Spec.Inst
