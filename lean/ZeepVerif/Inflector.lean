/-
Transcription of Inflector 0.11.4 `to_pascal_case` / `to_snake_case` (cases/case/mod.rs).
Exact for ASCII input. Non-ASCII characters are treated as alphanumeric, caseless, non-numeric letters
(an approximation: such names are outside the model; they are only oracle-checked).
Environment model: validated differentially against the real crate on every run.
-/
namespace ZeepVerif.Inflector

def isLowerA (c : Char) : Bool := 'a' ≤ c && c ≤ 'z'
def isUpperA (c : Char) : Bool := 'A' ≤ c && c ≤ 'Z'
def isDigitA (c : Char) : Bool := '0' ≤ c && c ≤ '9'
def isAlnum (c : Char) : Bool := isLowerA c || isUpperA c || isDigitA c || c.toNat ≥ 128
def isSep (c : Char) : Bool := !isAlnum c
def toUpperA (c : Char) : Char := if isLowerA c then Char.ofNat (c.toNat - 32) else c
def toLowerA (c : Char) : Char := if isUpperA c then Char.ofNat (c.toNat + 32) else c

/-- `trim_end_matches(is_not_alphanumeric)` -/
def trimRight (cs : List Char) : List Char := (cs.reverse.dropWhile isSep).reverse

structure PState where
  newWord : Bool := true
  lastChar : Char := ' '
  found : Bool := false
  out : List Char := []   -- reversed

def pascalStep (st : PState) (c : Char) : PState :=
  if isSep c && st.found then { st with newWord := true }
  else if !st.found && isSep c then st
  else if isDigitA c then { st with found := true, newWord := true, out := c :: st.out }
  else if st.newWord || (isLowerA st.lastChar && isUpperA c && st.lastChar != ' ') then
    { st with found := true, newWord := false, out := toUpperA c :: st.out }
  else { st with found := true, lastChar := c, out := toLowerA c :: st.out }

def toPascalCase (s : String) : String :=
  String.ofList ((trimRight s.toList).foldl pascalStep {}).out.reverse

/-- `char_is_uppercase`: unchanged by `to_ascii_uppercase` (so digits and punctuation count) -/
def snakeIsUpper (c : Char) : Bool := c == toUpperA c

structure SState where
  first : Bool := true
  out : List Char := []   -- reversed
  idx : Nat := 0

/-- `orig` is the untrimmed string, indexed by character like `chars().nth(i)` -/
def snakeStep (orig : Array Char) (st : SState) (c : Char) : SState :=
  let i := st.idx
  let st' :=
    if isSep c then
      if !st.first then { st with first := true, out := '_' :: st.out } else st
    else
      let nextLower := isLowerA (orig.getD (i + 1) 'A')
      let prevLower := isLowerA (orig.getD (i - 1) 'A')
      if !st.first && snakeIsUpper c && (nextLower || prevLower) then
        { st with first := false, out := toLowerA c :: '_' :: st.out }
      else { st with first := false, out := toLowerA c :: st.out }
  { st' with idx := i + 1 }

def toSnakeCase (s : String) : String :=
  let cs := s.toList
  String.ofList ((trimRight cs).foldl (snakeStep cs.toArray) {}).out.reverse

end ZeepVerif.Inflector
