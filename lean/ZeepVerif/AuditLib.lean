/- Audit: for every theorem of a Props module print the axioms it depends on. -/
import Lean
open Lean

namespace ZeepVerif

def audit (mod : Name) : CoreM Unit := do
  let env ← getEnv
  let some idx := env.getModuleIdx? mod | throwError "module not found: {mod}"
  let names := env.header.moduleData[idx]!.constNames
  let mut nThm := 0
  let mut nExample := 0
  for n in names do
    let some ci := env.find? n | continue
    match ci with
    | .thmInfo _ =>
      let str := n.toString
      let isEx := (str.splitOn "_example").length > 1
      if !isEx && n.isInternalDetail then continue
      let axs ← collectAxioms n
      if isEx then nExample := nExample + 1 else nThm := nThm + 1
      IO.println s!"{if isEx then "example" else "theorem"} {n} axioms={axs.toList}"
    | _ => pure ()
  IO.println s!"summary theorems={nThm} examples={nExample}"

end ZeepVerif
